// Package c01: parsed records do not depend on chunk boundaries, transport or parser workers.
package c01

import (
	"bytes"
	"encoding/json"
	"fmt"
	"io"
	"os"
	"path/filepath"
	"reflect"
	"strings"
	"syscall"
	"time"

	"git.metabarcoding.org/obitools/obitools4/obitools4/pkg/obiformats"
	"git.metabarcoding.org/obitools/obitools4/obitools4/pkg/obiiter"
	"git.metabarcoding.org/obitools/obitools4/obitools4/pkg/obiseq"
	"git.metabarcoding.org/obitools/obitools4/obitools4/pkg/obiverif"
	log "github.com/sirupsen/logrus"

	"verifh/cmdx"
	"verifh/core"
	"verifh/gen"
)

var formats = []string{"fasta", "fastq", "genbank", "embl"}

type fileCase struct {
	format string
	recs   []gen.SeqRec
	style  gen.FileStyle
	text   []byte
}

func mkFile(c *core.Ctx, format string, nrec int, hostile bool, maxLen int) fileCase {
	fc := fileCase{format: format, style: gen.RandStyle(c.Rng, format)}
	for i := 0; i < nrec; i++ {
		fc.recs = append(fc.recs, gen.RandRec(c.Rng, format, i, hostile, maxLen))
	}
	fc.text = gen.Render(c.Rng, fc.recs, fc.style)
	return fc
}

func splitter(format string) obiformats.LastSeqRecord {
	switch format {
	case "fasta":
		return obiformats.EndOfLastFastaEntry
	case "fastq":
		return obiformats.EndOfLastFastqEntry
	}
	return obiformats.EndOfLastFlatFileEntry
}

func chunkParser(format string) obiformats.SeqFileChunkParser {
	switch format {
	case "fasta":
		return obiformats.FastaChunkParser()
	case "fastq":
		return obiformats.FastqChunkParser(33, true)
	case "genbank":
		return obiformats.GenbankChunkParser(false)
	}
	return obiformats.EmblChunkParser(false)
}

// observed record
type obsRec struct {
	ID, Def, Seq string
	Qual         []byte
	Taxid        any
	SciName      any
	Feat         string // the feature table, when the reader was told to keep it
}

// featuresAlone: the feature table of every entry of a flat file, each entry parsed alone by the chunk
// parser (nothing before it, nothing after it). nil when the text does not split into n entries.
func featuresAlone(format string, text []byte, n int) []string {
	var entries [][]byte
	start := 0
	for pos := 0; pos < len(text); {
		end := bytes.IndexByte(text[pos:], '\n')
		if end < 0 {
			end = len(text)
		} else {
			end += pos + 1
		}
		if string(bytes.TrimRight(text[pos:end], "\r\n")) == "//" {
			entries = append(entries, text[start:end])
			start = end
		}
		pos = end
	}
	if len(entries) != n {
		return nil
	}
	parser := obiformats.EmblChunkParser(true)
	if format == "genbank" {
		parser = obiformats.GenbankChunkParser(true)
	}
	out := make([]string, n)
	for i, e := range entries {
		sl, err := parser("alone", bytes.NewReader(e))
		if err != nil || len(sl) != 1 {
			return nil
		}
		out[i] = string(append([]byte{}, sl[0].Features()...))
	}
	return out
}

func observe(s *obiseq.BioSequence, format string) obsRec {
	o := obsRec{ID: s.Id(), Def: s.Definition(), Seq: s.String()}
	if s.HasQualities() {
		o.Qual = append([]byte{}, s.Qualities()...)
	}
	if format == "genbank" || format == "embl" {
		o.Taxid, _ = s.GetAttribute("taxid")
		o.SciName, _ = s.GetAttribute("scientific_name")
		o.Feat = string(append([]byte{}, s.Features()...))
	}
	return o
}

// diff compares an observed record with the truth; returns the name of the first differing field.
func diff(o obsRec, t gen.SeqRec, format string) string {
	switch {
	case o.ID != t.ID:
		return "id"
	case o.Seq != t.Seq:
		return "sequence"
	case o.Def != t.Def:
		return "definition"
	}
	if format == "fastq" && !bytes.Equal(o.Qual, t.Qual) {
		return "quality"
	}
	if format == "genbank" || format == "embl" {
		if fmt.Sprint(o.Taxid) != fmt.Sprint(t.Taxid) {
			return "taxid"
		}
		if fmt.Sprint(o.SciName) != t.SciName {
			return "scientific_name"
		}
	}
	return ""
}

func compare(c *core.Ctx, layer string, fc fileCase, obs []obsRec, det map[string]any) bool {
	if len(obs) != len(fc.recs) {
		det["observed_records"] = len(obs)
		det["expected_records"] = len(fc.recs)
		c.Violate(fmt.Sprintf("record-count:%s", fc.format), layer+": the number of records delivered is not the number of records of the file", det)
		return false
	}
	for i := range obs {
		if f := diff(obs[i], fc.recs[i], fc.format); f != "" {
			det["record_index"] = i
			det["observed"] = obs[i]
			det["expected"] = fc.recs[i]
			feature := ""
			if f == "taxid" || f == "scientific_name" {
				if !fc.recs[i].HasTaxon {
					feature = ":record-without-taxon-xref"
				}
			}
			c.Violate(fmt.Sprintf("record:%s:%s%s", f, fc.format, feature), layer+": a delivered record differs from the record of the file", det)
			return false
		}
	}
	return true
}

// withoutQualities: the reader was told not to keep the quality scores. No observed record may carry
// any; the expected records are returned without theirs.
func withoutQualities(c *core.Ctx, fc fileCase, obs []obsRec, det map[string]any) (fileCase, bool) {
	for i := range obs {
		if len(obs[i].Qual) > 0 {
			det["record_index"], det["of_records"], det["observed"] = i, len(obs), obs[i]
			where := "inner"
			if i == len(obs)-1 {
				where = "last-of-file"
			}
			c.Violate("record:qualities-not-requested:"+where, "reader layer: a record carries quality scores although the reader was told not to keep them", det)
			return fc, false
		}
	}
	fc.recs = append([]gen.SeqRec{}, fc.recs...)
	for i := range fc.recs {
		fc.recs[i].Qual = nil
	}
	return fc, true
}

type oneByte struct{ r io.Reader }

func (o oneByte) Read(p []byte) (int, error) {
	if len(p) == 0 {
		return 0, nil
	}
	return o.r.Read(p[:1])
}

type shortReads struct {
	r   io.Reader
	rng interface{ Intn(int) int }
}

func (s shortReads) Read(p []byte) (int, error) {
	if len(p) == 0 {
		return 0, nil
	}
	return s.r.Read(p[:1+s.rng.Intn(len(p))])
}

func clip(b []byte) string {
	if len(b) > 3000 {
		return string(b[:1500]) + "\n...\n" + string(b[len(b)-1500:])
	}
	return string(b)
}

// ---------------------------------------------------------------- layer 1: chunk reader, every buffer size

func runChunk(c *core.Ctx) {
	log.SetLevel(log.ErrorLevel)
	format := formats[c.Idx%4]
	nrec := 1 + c.Rng.Intn(c.Pick(6, 12))
	maxLen := 90
	if format == "genbank" || format == "embl" {
		nrec = 1 + c.Rng.Intn(c.Pick(3, 5))
		maxLen = 150
	}
	fc := mkFile(c, format, nrec, true, maxLen)
	n := len(fc.text)
	c.Sample(map[string]any{"format": format, "style": fc.style, "records": nrec, "bytes": n, "text": clip(fc.text), "buffer_sizes": fmt.Sprintf("every b in [2, %d]", n+2)})
	parser := chunkParser(format)
	stripEOL := func(b []byte) []byte {
		return bytes.ReplaceAll(bytes.ReplaceAll(b, []byte("\n"), nil), []byte("\r"), nil)
	}
	flat := stripEOL(fc.text)
	step := 1
	if n > c.Pick(1500, 6000) {
		step = 1 + n/c.Pick(1500, 6000)
	}
	for b := 2; b <= n+2; b += step {
		var rd io.Reader = bytes.NewReader(fc.text)
		transport := "bytes"
		switch (b + c.Idx) % 4 {
		case 1:
			rd, transport = oneByte{rd}, "one-byte-reads"
		case 2:
			rd, transport = shortReads{rd, c.Rng}, "short-reads"
		}
		label := fmt.Sprintf("chunk:%s", format)
		c.Risk(label)
		var chunks []obiformats.SeqFileChunk
		ok := c.Bounded(label, 20*time.Second, func() {
			for ch := range obiformats.ReadSeqFileChunk("src", rd, make([]byte, b), splitter(format)) {
				chunks = append(chunks, ch)
			}
		})
		if !ok {
			return
		}
		c.Count("evaluations", 1)
		c.Count("chunked_reads", 1)
		nch := len(chunks)
		switch {
		case nch >= 6:
			c.Count("reads_with_6+_chunks", 1)
		case nch >= 3:
			c.Count("reads_with_3-5_chunks", 1)
		case nch == 2:
			c.Count("reads_with_2_chunks", 1)
		default:
			c.Count("reads_with_1_chunk", 1)
		}
		if nch >= 2 {
			c.Key("chunk/%s/%d/%v/%d/%s", format, nrec, fc.style, min(nch, 8), transport)
		}
		det := map[string]any{"format": format, "buffer_size": b, "transport": transport, "chunks": nch, "file": clip(fc.text), "style": fc.style}
		var cat []byte
		var obs []obsRec
		for i, ch := range chunks {
			if ch.Order != i {
				c.Violate("order:"+format, "chunks are not numbered 0,1,2,... in emission order", det)
				return
			}
			raw := append([]byte{}, ch.Raw.Bytes()...)
			cat = append(cat, raw...)
			seqs, err := parser("src", bytes.NewReader(raw))
			if err != nil {
				det["error"] = err.Error()
				c.Violate("chunk-unparsable:"+format, "a chunk cannot be parsed on its own", det)
				return
			}
			for _, s := range seqs {
				obs = append(obs, observe(s, format))
			}
		}
		if !bytes.Equal(stripEOL(cat), flat) {
			det["concatenation"] = clip(cat)
			c.Violate("conservation:"+format, "the concatenation of the chunks is not the file (bytes lost or duplicated at a chunk boundary)", det)
			return
		}
		if !compare(c, "chunk layer", fc, obs, det) {
			return
		}
	}
}

// ---------------------------------------------------------------- layer 2: the real readers

func drainReader(it obiiter.IBioSequence, format string) (orders []int, recs map[int][]obsRec) {
	recs = map[int][]obsRec{}
	for it.Next() {
		b := it.Get()
		orders = append(orders, b.Order())
		for _, s := range b.Slice() {
			recs[b.Order()] = append(recs[b.Order()], observe(s, format))
		}
	}
	return
}

func runReader(c *core.Ctx) {
	log.SetLevel(log.ErrorLevel)
	format := formats[c.Idx%4]
	nrec := 5 + c.Rng.Intn(c.Pick(40, 200))
	maxLen := 100
	if format == "genbank" || format == "embl" {
		nrec = 2 + c.Rng.Intn(c.Pick(12, 40))
		maxLen = 200
	}
	fc := mkFile(c, format, nrec, true, maxLen)
	n := len(fc.text)
	workers := []int{1, 2, 4, 8}[(c.Idx/4)%4]
	chunk := []int{2, 17, 64, 200, 1000, n / 3, n + 10}[c.Rng.Intn(7)]
	if chunk < 2 {
		chunk = 2
	}
	obiverif.SetChunk(chunk)
	obiverif.SetYield(uint64(c.Seed)*31+uint64(c.Idx), 500, 200)
	defer obiverif.SetChunk(0)
	defer obiverif.SetYield(0, 0, 0)
	headerMode := c.Idx % 3 // 0: no header parsing; 1: default (guessed) on non-hostile JSON/plain defs; 2: explicit JSON parser
	if headerMode != 0 && (format == "fasta" || format == "fastq") {
		// regenerate without hostile definitions: header parsing is the subject of C02
		fc = fileCase{format: format, style: gen.RandStyle(c.Rng, format)}
		for i := 0; i < nrec; i++ {
			fc.recs = append(fc.recs, gen.RandRec(c.Rng, format, i, false, maxLen))
		}
		fc.text = gen.Render(c.Rng, fc.recs, fc.style)
	}
	opts := []obiformats.WithOption{obiformats.OptionsParallelWorkers(workers), obiformats.OptionsSource("src")}
	switch headerMode {
	case 0:
		opts = append(opts, obiformats.OptionFastSeqDoNotParseHeader())
	case 2:
		opts = append(opts, obiformats.OptionsFastSeqHeaderParser(obiformats.ParseFastSeqJsonHeader))
	}
	// flat files read with their feature table kept (an API option): identifier, definition, sequence
	// and taxon are what they are without it, and the table of an entry is the one it has when parsed alone
	withFeat := false
	if (format == "embl" || format == "genbank") && (c.Idx/4)%2 == 1 {
		opts = append(opts, obiformats.WithFeatureTable(true))
		c.Count("flat_file_reads_with_feature_table", 1)
		withFeat = true
	}
	// the reader told not to keep the quality scores (what obiuniq asks for): no record carries any,
	// wherever it lies in the file and however the file ends
	noQual := format == "fastq" && c.Idx%5 == 3
	if noQual {
		opts = append(opts, obiformats.OptionsReadQualities(false))
		c.Count("fastq_reads_without_qualities", 1)
	}
	// full-file mode (OptionsFullFileBatch): the reader delivers ONE batch holding the records of the
	// file, in file order
	fullFile := (c.Idx/16)%3 == 2
	if fullFile {
		opts = append(opts, obiformats.OptionsFullFileBatch(true))
	}
	var rd io.Reader = bytes.NewReader(fc.text)
	transport := "bytes"
	abandoned := false
	switch c.Rng.Intn(3) {
	case 1:
		rd, transport = shortReads{rd, c.Rng}, "short-reads"
	case 2:
		pr, pw, err := os.Pipe()
		if err == nil {
			go func() { pw.Write(fc.text); pw.Close() }()
			rd, transport = pr, "os-pipe"
			// (not closed when the watchdog gave up on the read: the reader goroutines are still there and
			// would die of "file already closed", which is the harness's doing, not a verdict)
			defer func() {
				if !abandoned {
					pr.Close()
				}
			}()
		}
	}
	det := map[string]any{"format": format, "forced_chunk_size": chunk, "workers": workers, "transport": transport, "header_mode": headerMode, "records": nrec, "style": fc.style, "full_file_batch": fullFile}
	c.Sample(det)
	label := "reader:" + format
	if fullFile {
		label = "reader-fullfile:" + format
	}
	c.Risk(label)
	var orders []int
	var got map[int][]obsRec
	var rerr error
	ok := c.Bounded(label, 300*time.Second, func() {
		var it obiiter.IBioSequence
		switch format {
		case "fasta":
			it, rerr = obiformats.ReadFasta(rd, opts...)
		case "fastq":
			it, rerr = obiformats.ReadFastq(rd, opts...)
		case "genbank":
			it, rerr = obiformats.ReadGenbank(rd, opts...)
		default:
			it, rerr = obiformats.ReadEMBL(rd, opts...)
		}
		if rerr == nil {
			orders, got = drainReader(it, format)
		}
	})
	if !ok {
		abandoned = true
		return
	}
	c.Count("evaluations", 1)
	c.Count("reader_runs", 1)
	if rerr != nil {
		det["error"] = rerr.Error()
		c.Violate("reader-error:"+format, "the reader returns an error on a well-formed input", det)
		return
	}
	det["batch_numbers_in_arrival_order"] = orders
	if fullFile {
		if len(orders) != 1 || orders[0] != 0 {
			c.Violate("fullfile-batches:"+format, "full-file mode must deliver exactly one batch numbered 0", det)
			return
		}
		if n > chunk {
			c.Key("reader-fullfile/%s/%d/%s/%d/%d", format, workers, transport, headerMode, min(n/chunk, 10))
			c.Count("multi_chunk_fullfile_reads", 1)
		}
		obs := got[0]
		if headerMode != 0 && (format == "fasta" || format == "fastq") {
			for i := range obs {
				if i < len(fc.recs) && strings.HasPrefix(fc.recs[i].Def, "{") {
					obs[i].Def = fc.recs[i].Def
				}
			}
		}
		if len(obs) == len(fc.recs) {
			ids, want := map[string]int{}, map[string]int{}
			inOrder := true
			for i := range obs {
				ids[obs[i].ID]++
				want[fc.recs[i].ID]++
				inOrder = inOrder && obs[i].ID == fc.recs[i].ID
			}
			if !inOrder && reflect.DeepEqual(ids, want) {
				var seq []string
				for _, o := range obs {
					seq = append(seq, o.ID)
				}
				det["observed_ids"] = seq
				c.Violate("fullfile-order:"+format, "full-file mode: the single batch holds the records of the file but not in file order", det)
				return
			}
		}
		if noQual {
			var okQ bool
			if fc, okQ = withoutQualities(c, fc, obs, det); !okQ {
				return
			}
		}
		if compare(c, "reader layer, full-file batch", fc, obs, det) && withFeat {
			compareFeatures(c, fc, obs, det)
		}
		return
	}
	if len(orders) >= 2 {
		c.Key("reader/%s/%d/%d/%s/%d/%d", format, workers, min(len(orders), 10), transport, headerMode, nrec)
		c.Count("multi_chunk_reads", 1)
	}
	seen := map[int]bool{}
	for _, o := range orders {
		if seen[o] || o < 0 || o >= len(orders) {
			c.Violate("numbering:"+format, "the batch numbers are not a permutation of 0..m-1", det)
			return
		}
		seen[o] = true
	}
	if (format == "fasta" || format == "fastq") && headerMode == 0 {
		for i, o := range orders {
			if o != i {
				c.Violate("arrival-order:"+format, "ReadFasta/ReadFastq (no header parser) end with SortBatches but the batches arrive out of order", det)
				return
			}
		}
	}
	var obs []obsRec
	for k := 0; k < len(orders); k++ {
		obs = append(obs, got[k]...)
	}
	if headerMode != 0 && (format == "fasta" || format == "fastq") {
		// definitions of the JSON kind were turned into annotations: compare the rest
		for i := range obs {
			if i < len(fc.recs) && strings.HasPrefix(fc.recs[i].Def, "{") {
				obs[i].Def = fc.recs[i].Def
			}
		}
	}
	if noQual {
		var okQ bool
		if fc, okQ = withoutQualities(c, fc, obs, det); !okQ {
			return
		}
	}
	if compare(c, "reader layer", fc, obs, det) && withFeat {
		compareFeatures(c, fc, obs, det)
	}
}

func compareFeatures(c *core.Ctx, fc fileCase, obs []obsRec, det map[string]any) {
	alone := featuresAlone(fc.format, fc.text, len(fc.recs))
	if alone == nil || len(obs) != len(alone) {
		c.Count("feature_tables_not_compared", 1)
		return
	}
	nonEmpty := 0
	for i := range obs {
		if alone[i] != "" {
			nonEmpty++
		}
		if obs[i].Feat != alone[i] {
			det["record_index"], det["id"] = i, obs[i].ID
			det["features_observed"], det["features_of_the_entry_parsed_alone"] = string(clipB([]byte(obs[i].Feat))), string(clipB([]byte(alone[i])))
			c.Violate("record:features:"+fc.format, "reader layer: the feature table of a delivered entry is not the table of that entry parsed alone", det)
			return
		}
	}
	c.Count("feature_tables_compared", len(obs))
	c.Count("feature_tables_compared_non_empty", nonEmpty)
}

func clipB(b []byte) []byte {
	if len(b) > 600 {
		return b[:600]
	}
	return b
}

// ---------------------------------------------------------------- layer 3: end to end, transports

type jsonTitle map[string]any

func parseOut(out []byte, fastq bool) ([]gen.FRec, error) {
	if fastq {
		return gen.ParseFastq(out)
	}
	return gen.ParseFasta(out)
}

func runE2E(c *core.Ctx) { runE2EWith(c, false) }

// runE2EAsan: the same workload with obiconvert built with -asan (Go heap and the C reader of the
// stdin path, kseq + zlib, are instrumented); a sanitizer report is a violation of its own.
func runE2EAsan(c *core.Ctx) { runE2EWith(c, true) }

func runE2EWith(c *core.Ctx, asan bool) {
	format := formats[c.Idx%4]
	if asan {
		format = formats[c.Idx%2] // the C reader handles FASTA and FASTQ
	}
	bin := filepath.Join(c.BinDir, "obiconvert")
	if asan {
		bin = filepath.Join(c.BinDir, "asan", "obiconvert")
		if _, err := os.Stat(bin); err != nil {
			c.Inconclusive("the -asan build of obiconvert is missing")
			return
		}
	}
	nrec := 3 + c.Rng.Intn(c.Pick(60, 400))
	maxLen := 120
	if format == "genbank" || format == "embl" {
		nrec = 2 + c.Rng.Intn(c.Pick(10, 60))
		maxLen = 250
	}
	fc := fileCase{format: format, style: gen.RandStyle(c.Rng, format)}
	for i := 0; i < nrec; i++ {
		fc.recs = append(fc.recs, gen.RandRec(c.Rng, format, i, false, maxLen))
	}
	if (format == "fasta" || format == "fastq") && c.Idx%7 == 3 {
		// the very first title line is longer than what format sniffers usually look at
		fc.recs[0].Def = gen.LongDef(c.Rng, []int{3000, 3100, 4096, 9000, 70000}[c.Rng.Intn(5)], c.Rng.Intn(2) == 0)
	}
	fc.text = gen.Render(c.Rng, fc.recs, fc.style)
	if fc.style.CRLF && (format == "fasta" || format == "fastq") && !strings.HasPrefix(fc.recs[0].Def, "{") && len(fc.recs) > 2 {
		// line ends of two bytes straddling a 4 KiB boundary of the stream (the C reader of the
		// stdin path fills a 4096-byte buffer): the first title line is padded so that the "\r" of
		// a sequence line of a later record is the last byte of a 4 KiB block
		firstEOL := bytes.Index(fc.text, []byte("\r\n"))
		// the "\r" that ends the first sequence line of a record of the second half of the file
		p, off, lineNo := -1, 0, 0
		prevTitle := false
		for _, ln := range bytes.SplitAfter(fc.text, []byte("\r\n")) {
			isSeqLine := prevTitle
			if format == "fastq" {
				isSeqLine = lineNo%4 == 1
				prevTitle = false
			} else {
				prevTitle = len(ln) > 0 && ln[0] == '>'
			}
			if isSeqLine && off > len(fc.text)/2 && bytes.HasSuffix(ln, []byte("\r\n")) {
				p = off + len(ln) - 2
				break
			}
			off += len(ln)
			lineNo++
		}
		if firstEOL > 0 && p > firstEOL {
			pad := (4095 - p%4096 + 4096) % 4096
			if pad > 0 {
				word := strings.Repeat("x", pad)
				if fc.recs[0].Def == "" {
					fc.recs[0].Def = word[:max(0, pad-1)]
				} else {
					fc.recs[0].Def += " " + word[:max(0, pad-1)]
				}
			}
		}
	}
	// a UTF-8 byte order mark in front of the text: skipped by the code that opens files by name
	// (plain or compressed); not used with stdin, where nothing is promised
	fc.style.BOM = c.Idx%5 == 2
	fc.text = gen.Render(c.Rng, fc.recs, fc.style)
	ext := map[string]string{"fasta": ".fasta", "fastq": ".fastq", "genbank": ".gb", "embl": ".embl"}[format]
	base := filepath.Join(c.Dir, fmt.Sprintf("e%d%s", c.Idx, ext))
	os.WriteFile(base, fc.text, 0o644)
	defer os.Remove(base)
	type variant struct {
		name  string
		path  string
		stdin bool
		args  []string
	}
	vars := []variant{{"file", base, false, nil}, {"named-pipe", base, false, nil}}
	if format == "fasta" || format == "fastq" {
		vars = append(vars, variant{"stdin", base, true, nil})
		vars = append(vars, variant{"file-forced-format", base, false, []string{"--" + format}})
	} else {
		vars = append(vars, variant{"stdin-forced-format", base, true, []string{"--" + format}})
		vars = append(vars, variant{"file-forced-format", base, false, []string{"--" + format}})
	}
	for _, codec := range gen.Codecs {
		comp, err := gen.Compress(codec, fc.text)
		if c.Rng.Intn(3) == 0 && len(fc.text) > 4 {
			// the same text as a multi-member file (cat a.gz b.gz, bgzip, an appending writer)
			a := 1 + c.Rng.Intn(len(fc.text)-2)
			b := a + c.Rng.Intn(len(fc.text)-a)
			comp, _, err = gen.CompressMembers(codec, [][]byte{fc.text[:a], fc.text[a:b], fc.text[b:]})
			c.Count("multi_member_transports", 1)
		}
		if err != nil {
			continue
		}
		p := base + gen.CodecExt(codec)
		os.WriteFile(p, comp, 0o644)
		defer os.Remove(p)
		vars = append(vars, variant{"file-" + codec, p, false, nil})
		if codec == "gzip" && (format == "fasta" || format == "fastq") {
			vars = append(vars, variant{"stdin-gzip", p, true, nil})
		}
	}
	chunk := []int{0, 0, 50, 333, 4096}[c.Rng.Intn(5)]
	c.Sample(map[string]any{"format": format, "records": nrec, "style": fc.style, "forced_chunk_size": chunk, "transports": len(vars)})
	var reference []byte
	for _, v := range vars {
		args := append([]string{"--no-progressbar", "--max-cpu", fmt.Sprint([]int{1, 2, 4, 8}[c.Rng.Intn(4)]), "--batch-size", fmt.Sprint(1 + c.Rng.Intn(100))}, v.args...)
		opt := cmdx.Opt{}
		if chunk > 0 {
			opt.Env = []string{fmt.Sprintf("OBIVERIF_CHUNK=%d", chunk), fmt.Sprintf("OBIVERIF_YIELD=%d:300:200", c.Idx)}
		}
		if v.stdin && fc.style.BOM {
			continue
		}
		if asan {
			if !v.stdin && v.name != "file" && v.name != "file-gzip" {
				continue
			}
			opt.Env = append(opt.Env, "ASAN_OPTIONS=detect_leaks=0:abort_on_error=0:exitcode=97")
			opt.Timeout = 300 * time.Second
		}
		if v.stdin {
			opt.StdinFile = v.path
		} else if v.name == "named-pipe" {
			// the file given by name is a FIFO (mkfifo) that another process fills
			fifo := base + ".fifo"
			os.Remove(fifo)
			if err := syscall.Mkfifo(fifo, 0o600); err != nil {
				continue
			}
			go func(text []byte) {
				if f, err := os.OpenFile(fifo, os.O_WRONLY, 0); err == nil {
					f.Write(text)
					f.Close()
				}
			}(fc.text)
			defer os.Remove(fifo)
			args = append(args, fifo)
		} else {
			args = append(args, v.path)
		}
		res := cmdx.Run(bin, args, opt)
		if v.name == "named-pipe" {
			// unblock the feeding goroutine if the command never opened the pipe
			if f, err := os.OpenFile(base+".fifo", os.O_RDONLY|syscall.O_NONBLOCK, 0); err == nil {
				f.Close()
			}
		}
		c.Count("evaluations", 1)
		c.Count("command_runs", 1)
		if asan {
			c.Count("asan_runs", 1)
			if strings.Contains(string(res.Stderr), "AddressSanitizer") {
				c.Violate(fmt.Sprintf("asan:%s:%s", format, v.name), "AddressSanitizer reports a memory error while obiconvert reads a well-formed input",
					map[string]any{"format": format, "transport": v.name, "args": args, "forced_chunk_size": chunk, "records": nrec, "style": fc.style, "report": cmdx.Diag(res.Stderr, 3000)})
				continue
			}
		}
		det := map[string]any{"format": format, "transport": v.name, "args": args, "forced_chunk_size": chunk, "records": nrec, "style": fc.style, "exit": res.Exit, "stderr": cmdx.Tail(res.Stderr, 600)}
		if res.TimedOut {
			if res.Deadlock {
				c.Violate("deadlock:"+format+":"+v.name, "obiconvert never terminates", det)
			} else {
				c.Inconclusive("watchdog on obiconvert " + v.name)
			}
			continue
		}
		if res.Exit != 0 {
			c.Violate(fmt.Sprintf("exit:%s:%s", format, v.name), "obiconvert fails on a well-formed input", det)
			continue
		}
		c.Key("e2e/%s/%s/%d/%v/%v", format, v.name, chunk, nrec/50, asan)
		got, err := parseOut(res.Stdout, format == "fastq")
		if err != nil || len(got) != len(fc.recs) {
			det["stdout"] = cmdx.Tail(res.Stdout, 800)
			det["observed_records"] = len(got)
			c.Violate(fmt.Sprintf("record-count:%s:%s", format, v.name), "obiconvert does not output one record per record of the file", det)
			continue
		}
		bad := false
		for i, g := range got {
			t := fc.recs[i]
			f := ""
			switch {
			case g.ID != t.ID:
				f = "id"
			case g.Seq != t.Seq:
				f = "sequence"
			}
			if f == "" && format == "fastq" {
				q := make([]byte, len(g.Qual))
				for j := range q {
					q[j] = g.Qual[j] - 33
				}
				if !bytes.Equal(q, t.Qual) {
					f = "quality"
				}
			}
			if f == "" {
				f = checkTitle(g.Title, t, format)
			}
			if f != "" {
				det["record_index"] = i
				det["observed"] = g
				det["expected"] = t
				feature := ""
				if (f == "taxid" || f == "scientific_name") && !t.HasTaxon {
					feature = ":record-without-taxon-xref"
				}
				c.Violate(fmt.Sprintf("record:%s:%s:%s%s", f, format, v.name, feature), "obiconvert outputs a record that differs from the record of the file", det)
				bad = true
				break
			}
		}
		if bad {
			continue
		}
		// all transports of the same file must give the same bytes
		if reference == nil {
			reference = res.Stdout
		} else if !bytes.Equal(stripSource(reference), stripSource(res.Stdout)) {
			det["stdout"] = cmdx.Tail(res.Stdout, 600)
			det["reference_stdout"] = cmdx.Tail(reference, 600)
			c.Violate(fmt.Sprintf("transport-dependent:%s:%s", format, v.name), "the same file read through another transport gives different output bytes", det)
		}
	}
}

func stripSource(b []byte) []byte { return b }

// checkTitle verifies the annotations of an output title line against the truth.
func checkTitle(title string, t gen.SeqRec, format string) string {
	var m jsonTitle
	if title != "" {
		if err := json.Unmarshal([]byte(title), &m); err != nil {
			return "title-not-json"
		}
	}
	num := func(v any) string { return strings.TrimSuffix(fmt.Sprint(v), ".0") }
	switch format {
	case "fasta", "fastq":
		if strings.HasPrefix(t.Def, "{") {
			var want map[string]any
			json.Unmarshal([]byte(t.Def), &want)
			for k, v := range want {
				if num(m[k]) != num(v) {
					return "annotation"
				}
			}
		} else if t.Def != "" {
			if fmt.Sprint(m["definition"]) != t.Def {
				return "definition"
			}
		}
	default:
		if num(m["taxid"]) != fmt.Sprint(t.Taxid) {
			return "taxid"
		}
		if fmt.Sprint(m["scientific_name"]) != t.SciName {
			return "scientific_name"
		}
		if fmt.Sprint(m["definition"]) != t.Def {
			return "definition"
		}
	}
	return ""
}

func init() {
	core.Register(&core.Property{
		ID:    "C01",
		Level: "exploration",
		Rule: "files are generated from a drawn record list (ground truth) and rendered with format variation (FASTA folding 1..120 or none, LF/CRLF, final newline or not, case mix, FASTQ quality lines starting with '@'/'+' or made of letters, '+id' lines, ids/definitions containing '>' '@' '+' '{', GenBank/EMBL records with and without taxon cross-reference, 1-3 definition lines). Layer 1: ReadSeqFileChunk with EVERY buffer size b in [2, len+2] (step>1 only above 1.5k/6k bytes) over bytes / one-byte / short-read readers, each chunk parsed on its own by the real chunk parser; layer 2: the real ReadFasta/ReadFastq/ReadGenbank/ReadEMBL with forced chunk size, 1-8 parser workers, yields, os.Pipe; layer 3: obiconvert over file / stdin / forced format / gzip,bzip2,xz,zstd; the stdin (C reader: kseq + zlib) and file transports again with an AddressSanitizer build of the command. " +
			"Added later: title lines of 4 KiB-66 kB, full-file batch mode, GenBank entries without sequence (CON), a byte order mark on files opened by name, named pipes, the first title line longer than the sniffing window, a CRLF straddling the 4 KiB buffer of the stdin reader, compressed files made of several members (an empty one included). FASTQ read with the qualities switched off (no record may carry any), flat files read with their feature table kept, qualifier lines ending with the two slashes of an entry terminator. " +
			"distinct_nontrivial = distinct (layer, format, style, #chunks class, transport, workers) with at least 2 chunks (layers 1-2) or distinct (format, transport, chunk size, size class) command runs (layer 3)",
		Assume: []string{"well-formed input as defined in DESIGN.md Appendix A.4 (no blank lines inside files, no empty sequences except GenBank entries without ORIGIN block in the parser layers, flat-file lines <= 100 columns; a byte order mark only in front of files opened by name)", "b = 1 is excluded (the reader cannot progress with a one-byte buffer; production buffers are >= 1 MiB)"},
		Subs: []core.Sub{
			{Name: "chunk", N: core.Const(48, 960), Run: runChunk},
			{Name: "reader", N: core.Const(192, 7680), Run: runReader, TimeoutS: 3000, Race: true, NRace: core.Const(48, 192)},
			{Name: "e2e", N: core.Const(16, 384), Run: runE2E},
			{Name: "e2e-asan", N: core.Const(8, 128), Run: runE2EAsan, TimeoutS: 3000},
			{Name: "bigfile", N: core.Const(2, 4), Run: runBig, Serial: false, TimeoutS: 1800},
		},
		Cmds:          []string{"obiconvert"},
		AsanCmds:      []string{"obiconvert"},
		MinNontrivial: 200,
		RaceFiles:     []string{"pkg/obiformats/seqfile_chunk_read.go", "pkg/obiformats/fastqseq_read.go", "pkg/obiformats/fastaseq_read.go", "pkg/obiformats/genbank_read.go", "pkg/obiformats/embl_read.go", "pkg/obiformats/fastseq_read.go", "pkg/obiformats/universal_read.go", "pkg/obiformats/xopen.go"},
	})
}
