package c01

import (
	"bufio"
	"crypto/sha1"
	"fmt"
	"os"
	"os/exec"
	"path/filepath"
	"strings"

	"verifh/core"
	"verifh/gen"
)

// runBig: files larger than the PRODUCTION read buffers (1 MiB for FASTA/FASTQ,
// 128 MiB for GenBank/EMBL), no hook: the real chunk boundaries of the commands.
func runBig(c *core.Ctx) {
	format := []string{"fasta", "fastq", "genbank", "embl"}[c.Idx%4]
	target := 3 << 20 // bytes
	if format == "genbank" || format == "embl" {
		target = 131 << 20
	}
	ext := map[string]string{"fasta": ".fasta", "fastq": ".fastq", "genbank": ".gb", "embl": ".embl"}[format]
	path := filepath.Join(c.Dir, fmt.Sprintf("big%d%s", c.Idx, ext))
	f, err := os.Create(path)
	if err != nil {
		c.Inconclusive("cannot create the big file")
		return
	}
	defer os.Remove(path)
	w := bufio.NewWriterSize(f, 1<<20)
	style := gen.FileStyle{Format: format, Fold: 60, FinalEOL: true}
	want := sha1.New()
	n := 0
	written := 0
	for written < target {
		rec := gen.RandRec(c.Rng, format, n, false, 400)
		b := gen.Render(c.Rng, []gen.SeqRec{rec}, style)
		w.Write(b)
		written += len(b)
		fmt.Fprintf(want, "%s|%s|%d\n", rec.ID, rec.Seq, taxOf(rec, format))
		n++
	}
	w.Flush()
	f.Close()
	c.Risk("big:" + format)
	cmd := exec.Command(filepath.Join(c.BinDir, "obiconvert"), "--no-progressbar", "--fasta-output", "--max-cpu", "8", path)
	out, err := cmd.StdoutPipe()
	if err != nil {
		c.Inconclusive("pipe")
		return
	}
	var stderr strings.Builder
	cmd.Stderr = &stderr
	if err := cmd.Start(); err != nil {
		c.Inconclusive("cannot start obiconvert")
		return
	}
	got := sha1.New()
	sc := bufio.NewScanner(out)
	sc.Buffer(make([]byte, 1<<20), 1<<26)
	var id, title string
	var seq strings.Builder
	m := 0
	flush := func() {
		if id == "" {
			return
		}
		t := 0
		if i := strings.Index(title, `"taxid":`); i >= 0 {
			fmt.Sscanf(title[i+8:], "%d", &t)
		}
		fmt.Fprintf(got, "%s|%s|%d\n", id, seq.String(), t)
		m++
	}
	for sc.Scan() {
		line := sc.Text()
		if strings.HasPrefix(line, ">") {
			flush()
			seq.Reset()
			h := line[1:]
			if i := strings.IndexByte(h, ' '); i >= 0 {
				id, title = h[:i], h[i+1:]
			} else {
				id, title = h, ""
			}
			continue
		}
		seq.WriteString(line)
	}
	flush()
	werr := cmd.Wait()
	c.Count("evaluations", 1)
	c.Count("big_file_records", n)
	det := map[string]any{"format": format, "bytes": written, "records": n, "records_output": m, "stderr": tailS(stderr.String(), 600)}
	c.Sample(det)
	if werr != nil {
		c.Violate("big:exit:"+format, "obiconvert fails on a large well-formed file read with the production buffer size", det)
		return
	}
	c.Key("big/%s/%d", format, written>>20)
	if m != n || fmt.Sprintf("%x", got.Sum(nil)) != fmt.Sprintf("%x", want.Sum(nil)) {
		c.Violate("big:records:"+format, "the records delivered from a file larger than the production read buffer are not the records of the file (id, sequence, taxid digest differs)", det)
	}
}

func taxOf(r gen.SeqRec, format string) int {
	if format == "genbank" || format == "embl" {
		return r.Taxid
	}
	return 0
}

func tailS(s string, n int) string {
	if len(s) > n {
		return s[len(s)-n:]
	}
	return s
}
