package main

import _ "verifh/c10"
