package main

import _ "verifh/c14"
