package main

import (
	_ "verifh/c20"
)
