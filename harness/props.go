package main

import (
	_ "verifh/c09"
	_ "verifh/c20"
)
