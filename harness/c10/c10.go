// Package c10: primer pattern matching (pkg/obiapat + obialign.LocatePattern)
// reports exactly the matching positions and error counts.
//
// Every sub-check executes the real matcher (cgo) next to a naive oracle
// (verifh/ref: window scan, full-matrix edit distance).
package c10

import (
	"fmt"
	"math"
	"os"
	"sort"
	"strings"

	"git.metabarcoding.org/obitools/obitools4/obitools4/pkg/obiapat"
	"git.metabarcoding.org/obitools/obitools4/obitools4/pkg/obiseq"
	"github.com/sirupsen/logrus"

	"verifh/core"
	"verifh/gen"
	"verifh/ref"
)

// maxPatLen is MAX_PAT_LEN of pkg/obiapat/apat.h: the documented maximal pattern
// length, also added by FindAllIndex to the length of the search region.
const maxPatLen = 64

// target is one compiled pattern together with its reference model.
type target struct {
	model ref.PatModel
	text  string
	k     int
	indel bool
	ap    obiapat.ApatPattern
}

func (t *target) String() string {
	return fmt.Sprintf("%s/e=%d/indel=%v", t.text, t.k, t.indel)
}

func compile(model ref.PatModel, upper bool, k int, indel bool) (*target, error) {
	text := model.Text(upper)
	ap, err := obiapat.MakeApatPattern(text, k, indel)
	if err != nil {
		return nil, err
	}
	if (len(text)+k)%2 == 0 {
		// the commands derive the reverse-complemented pattern before they search with the direct
		// one (sometimes twice): deriving it must not change the pattern it is derived from
		if rc, err := ap.ReverseComplement(); err == nil {
			if (len(text)+k)%4 == 0 {
				ap.ReverseComplement()
			}
			_ = rc
		}
	}
	return &target{model: model, text: text, k: k, indel: indel, ap: ap}, nil
}

// mode names the matching mode in signatures and keys.
func (t *target) mode() string {
	if t.indel {
		return "indel"
	}
	return "mismatch"
}

// lenTag is ":len64" for patterns of the maximal documented length.
func (t *target) lenTag() string {
	if len(t.model) == maxPatLen {
		return ":len64"
	}
	return ""
}

// apatSeq converts s to the matcher's sequence structure, recycling prev when given.
func apatSeq(s []byte, prev *obiapat.ApatSequence) (obiapat.ApatSequence, error) {
	bs := obiseq.NewBioSequence("s", append([]byte{}, s...), "")
	if prev != nil {
		return obiapat.MakeApatSequence(bs, false, *prev)
	}
	return obiapat.MakeApatSequence(bs, false)
}

// try runs f and converts a Go panic into a message ("" = no panic).
func try(f func()) (msg string) {
	defer func() {
		if r := recover(); r != nil {
			switch v := r.(type) {
			case *logrus.Entry:
				msg = "log.Panic: " + v.Message
			case error:
				msg = "runtime: " + v.Error()
			default:
				msg = fmt.Sprint(v)
			}
			if msg == "" {
				msg = "panic"
			}
		}
	}()
	f()
	return ""
}

// panicKind classifies a recovered panic by the clause that raised it.
func panicKind(msg string) string {
	switch {
	case strings.Contains(msg, "must be shorter than sequence"):
		return "locate-precondition"
	case strings.Contains(msg, "slice bounds out of range"):
		return "slice-bounds"
	case strings.Contains(msg, "index out of range"):
		return "index-range"
	}
	return "other"
}

func toHits(loc [][3]int) []ref.Hit {
	r := make([]ref.Hit, len(loc))
	for i, l := range loc {
		r[i] = ref.Hit{Start: l[0], End: l[1], Err: l[2]}
	}
	return r
}

// region computes the bounds used by the oracles for a search window.
// Matches lying inside [lo, must) have to be reported; matches may be reported
// up to may (FindAllIndex adds MAX_PAT_LEN to the length it is given; whether
// the hits of that margin belong to "the region where the pattern is looked
// for" is not fixed by the documentation, so they are free).
func region(seqLen, begin, length int) (lo, must, may int) {
	lo = max(begin, 0)
	if length < 0 {
		length = seqLen
	}
	must = min(seqLen, lo+length)
	may = min(seqLen, lo+length+maxPatLen)
	if must < lo {
		must = lo
	}
	if may < lo {
		may = lo
	}
	return
}

type discrepancy struct {
	cause  string
	detail map[string]any
}

// cmpMismatch compares the hits of a mismatch-mode search with the brute-force scan.
func cmpMismatch(t *target, seq []byte, begin, length int, got []ref.Hit) *discrepancy {
	lo, must, may := region(len(seq), begin, length)
	mustHits := t.model.MismatchHits(seq, t.k, lo, must)
	mayHits := t.model.MismatchHits(seq, t.k, lo, may)
	byStart := map[int]ref.Hit{}
	for _, h := range mayHits {
		byStart[h.Start] = h
	}
	gotStart := map[int]bool{}
	mk := func(cause string, h any) *discrepancy {
		return &discrepancy{cause + t.lenTag(), map[string]any{
			"pattern": t.text, "errormax": t.k, "indel": false, "sequence": string(seq), "begin": begin, "length": length,
			"got": got, "expected_inside_window": mustHits, "first_bad": h}}
	}
	for _, h := range got {
		gotStart[h.Start] = true
		if h.End-h.Start != len(t.model) {
			return mk("span", h)
		}
		e, ok := byStart[h.Start]
		if !ok {
			if h.Start < 0 || h.End > len(seq) {
				return mk("spurious:outside-sequence", h)
			}
			if h.Start < lo {
				return mk("spurious:before-begin", h)
			}
			if h.End > may {
				return mk("spurious:beyond-window", h)
			}
			return mk("spurious", h)
		}
		if e.Err != h.Err {
			return mk("errors", h)
		}
	}
	for _, h := range mustHits {
		if !gotStart[h.Start] {
			return mk("missing", h)
		}
	}
	return nil
}

// cmpIndelEnds compares the hits of an indel-mode search with Sellers' DP: the
// raw hits of the automaton identify END positions (their start is nominal,
// end - patlen; the re-aligned spans are checked on AllMatches / BestMatch).
func cmpIndelEnds(t *target, seq []byte, begin, length int, got []ref.Hit) *discrepancy {
	lo, must, may := region(len(seq), begin, length)
	d := t.model.EndDistances(seq[lo:may])
	var expected []ref.Hit
	for e := lo + 1; e <= must; e++ {
		if d[e-lo] <= t.k {
			expected = append(expected, ref.Hit{Start: e - len(t.model), End: e, Err: d[e-lo]})
		}
	}
	mk := func(cause string, h any) *discrepancy {
		return &discrepancy{cause + t.lenTag(), map[string]any{
			"pattern": t.text, "errormax": t.k, "indel": true, "sequence": string(seq), "begin": begin, "length": length,
			"got": got, "expected_ends_inside_window": expected, "first_bad": h}}
	}
	gotEnd := map[int]bool{}
	for _, h := range got {
		gotEnd[h.End] = true
		if h.End-h.Start != len(t.model) {
			return mk("span", h)
		}
		if h.End <= lo || h.End > may {
			return mk("spurious:outside-window", h)
		}
		if d[h.End-lo] > t.k {
			return mk("spurious", h)
		}
		if d[h.End-lo] != h.Err {
			return mk("errors", h)
		}
	}
	for _, h := range expected {
		if !gotEnd[h.End] {
			return mk("missing", h)
		}
	}
	return nil
}

// checkSearch runs FindAllIndex and IsMatching on one window and compares them with the oracle.
func checkSearch(c *core.Ctx, t *target, seq []byte, as obiapat.ApatSequence, begin, length int, recycled bool) (nExpected int) {
	var loc [][3]int
	var is bool
	if msg := try(func() {
		loc = t.ap.FindAllIndex(as, begin, length)
		is = t.ap.IsMatching(as, begin, length)
	}); msg != "" {
		report(c, "FindAllIndex:panic:"+panicKind(msg)+t.lenTag(), "FindAllIndex / IsMatching panicked",
			map[string]any{"pattern": t.text, "errormax": t.k, "indel": t.indel, "sequence": string(seq), "begin": begin, "length": length, "panic": msg})
		return 0
	}
	c.Count("evaluations", 2)
	got := toHits(loc)
	var d *discrepancy
	if t.indel {
		d = cmpIndelEnds(t, seq, begin, length, got)
	} else {
		d = cmpMismatch(t, seq, begin, length, got)
	}
	if d != nil {
		cause := "FindAllIndex:" + d.cause
		if recycled {
			// does a fresh ApatSequence give the right answer? then the recycling is at fault
			if fresh, err := apatSeq(seq, nil); err == nil {
				g2 := toHits(t.ap.FindAllIndex(fresh, begin, length))
				var d2 *discrepancy
				if t.indel {
					d2 = cmpIndelEnds(t, seq, begin, length, g2)
				} else {
					d2 = cmpMismatch(t, seq, begin, length, g2)
				}
				if d2 == nil {
					cause += ":recycled-only"
					d.detail["fresh_sequence_result"] = g2
				}
			}
		}
		report(c, cause, "FindAllIndex ("+t.mode()+" mode) differs from the reference scan", d.detail)
	}
	// IsMatching must agree with the existence of a hit
	lo, must, may := region(len(seq), begin, length)
	var anyMust, anyMay bool
	if t.indel {
		dd := t.model.EndDistances(seq[lo:may])
		for e := lo + 1; e <= may; e++ {
			if dd[e-lo] <= t.k {
				anyMay = true
				if e <= must {
					anyMust = true
					nExpected++
				}
			}
		}
	} else {
		nExpected = len(t.model.MismatchHits(seq, t.k, lo, must))
		anyMust = nExpected > 0
		anyMay = anyMust || len(t.model.MismatchHits(seq, t.k, lo, may)) > 0
	}
	if (anyMust && !is) || (!anyMay && is) {
		cause := "IsMatching:false-positive"
		if anyMust {
			cause = "IsMatching:false-negative"
		}
		report(c, cause+t.lenTag(), "IsMatching ("+t.mode()+" mode) disagrees with the reference",
			map[string]any{"pattern": t.text, "errormax": t.k, "indel": t.indel, "sequence": string(seq), "begin": begin, "length": length, "got": is})
	}
	return nExpected
}

// pickPatLen draws a pattern length in 1..64; two cases out of 12 take the maximal length.
func pickPatLen(c *core.Ctx) int {
	r := c.Rng
	if c.Idx%12 == 5 || c.Idx%12 == 10 {
		return maxPatLen
	}
	switch r.Intn(10) {
	case 0, 1, 2:
		return 1 + r.Intn(8)
	case 3, 4, 5, 6:
		return 9 + r.Intn(24)
	case 7, 8:
		return 33 + r.Intn(30)
	default:
		return []int{1, 2, 31, 32, 33, 62, 63, 63}[r.Intn(8)]
	}
}

func pickOpts(c *core.Ctx) gen.PatOpts {
	r := c.Rng
	if r.Intn(12) == 0 {
		// written almost entirely with classes, negations and marks: a few dozen positions take
		// several hundred characters of pattern text
		return gen.PatOpts{Class: 950, Neg: 300, Oblig: 300}
	}
	switch r.Intn(5) {
	case 0: // plain bases
		return gen.PatOpts{LowCx: 200}
	case 1: // IUPAC only
		return gen.PatOpts{Ambig: 300, LowCx: 100}
	case 2: // everything, rarely
		return gen.PatOpts{Ambig: 150, Class: 100, Neg: 60, Oblig: 80}
	case 3: // many modifiers
		return gen.PatOpts{Ambig: 200, Class: 250, Neg: 250, Oblig: 300}
	default: // oblig positions on plain bases
		return gen.PatOpts{Oblig: 250, LowCx: 150}
	}
}

func pickSeqLen(c *core.Ctx, patlen int) int {
	r := c.Rng
	switch r.Intn(10) {
	case 0:
		return r.Intn(4) // 0..3
	case 1:
		return max(0, patlen-1-r.Intn(2))
	case 2:
		return patlen
	case 3:
		return patlen + 1 + r.Intn(3)
	case 4, 5:
		return patlen + r.Intn(40)
	default:
		return r.Intn(301)
	}
}

func lenClass(n int) string {
	switch {
	case n <= 4:
		return fmt.Sprint(n)
	case n <= 8:
		return "5-8"
	case n <= 16:
		return "9-16"
	case n <= 32:
		return "17-32"
	case n <= 62:
		return "33-62"
	}
	return fmt.Sprint(n)
}

func constructs(m ref.PatModel) string {
	f := map[string]bool{}
	for _, p := range m {
		if len(p.Letters) == 1 && !p.Class && strings.IndexByte("acgt", p.Letters[0]) < 0 {
			f["iupac"] = true
		}
		if p.Class {
			f["class"] = true
		}
		if p.Neg {
			f["neg"] = true
		}
		if p.Oblig {
			f["oblig"] = true
		}
	}
	var l []string
	for k := range f {
		l = append(l, k)
	}
	sort.Strings(l)
	return strings.Join(l, "+")
}

func plantKinds(pl []gen.Plant) string {
	f := map[string]bool{}
	for _, p := range pl {
		f[p.Kind] = true
	}
	var l []string
	for k := range f {
		l = append(l, k)
	}
	sort.Strings(l)
	return strings.Join(l, "+")
}

// windows returns search windows for a sequence of length n: the whole sequence
// (both spellings) and random (begin, length) pairs.
func windows(c *core.Ctx, n int) [][2]int {
	r := c.Rng
	w := [][2]int{{0, -1}}
	if r.Intn(2) == 0 {
		w = append(w, [2]int{0, n})
	}
	for q := 0; q < 3; q++ {
		b := r.Intn(n + 1)
		var l int
		switch r.Intn(4) {
		case 0:
			l = -1
		case 1:
			l = n - b
		default:
			l = r.Intn(n - b + 1)
		}
		w = append(w, [2]int{b, l})
	}
	if r.Intn(3) == 0 {
		// "up to the end" written as a very large length (callers pass math.MaxInt32 or a buffer size)
		b := r.Intn(n + 1)
		w = append(w, [2]int{b, []int{1 << 20, 1 << 30, math.MaxInt32, math.MaxInt32 - 64, math.MaxInt32 - b}[r.Intn(5)]})
	}
	return w
}

// runSearch is the body of the sub-checks "mismatch" and "indel" (search level):
// one pattern, a stream of sequences converted with a fresh and then a recycled
// ApatSequence, whole-sequence and windowed searches.
func runSearch(c *core.Ctx, indel bool) {
	r := c.Rng
	n := pickPatLen(c)
	model := gen.PatternModel(r, n, pickOpts(c))
	k := r.Intn(5)
	if indel {
		if n < 2 {
			n = 2 + r.Intn(6)
			model = gen.PatternModel(r, n, pickOpts(c))
		}
		k = 1 + r.Intn(min(4, n-1)) // 1..4, below the pattern length
		// '#' has no defined meaning under insertions/deletions: leave it out
		for i := range model {
			model[i].Oblig = false
		}
	}
	c.Risk("compile:" + lenClass(n))
	t, err := compile(model, r.Intn(2) == 0, k, indel)
	if err != nil {
		if n == maxPatLen {
			// the API does not accept the maximal documented length: nothing to compare
			c.Count("len64_rejected", 1)
			return
		}
		report(c, "pattern-rejected:"+constructs(model), "a pattern of the documented grammar is rejected by MakeApatPattern",
			map[string]any{"pattern": model.Text(false), "errormax": k, "indel": indel, "error": err.Error()})
		return
	}
	if t.ap.Len() != n {
		report(c, "patlen:"+constructs(model), "ApatPattern.Len() is not the number of pattern positions",
			map[string]any{"pattern": t.text, "got": t.ap.Len(), "want": n})
		return
	}
	c.Risk("search:" + t.mode() + ":" + lenClass(n))
	nseq := 8
	var prev *obiapat.ApatSequence
	for q := 0; q < nseq; q++ {
		L := pickSeqLen(c, n)
		seq, plants := gen.PlantedSeq(r, model, L, k, indel)
		as, err := apatSeq(seq, prev)
		if err != nil {
			report(c, "sequence-rejected", "MakeApatSequence fails on a sequence over a,c,g,t", map[string]any{"sequence": string(seq), "error": err.Error()})
			prev = nil
			continue
		}
		recycled := prev != nil
		if r.Intn(4) != 0 {
			prev = &as // recycle it for the next sequence
		} else {
			prev = nil
		}
		for wi, w := range windows(c, len(seq)) {
			ne := checkSearch(c, t, seq, as, w[0], w[1], recycled)
			if ne > 0 || len(plants) > 0 {
				wk := "full"
				if wi > 0 && !(w[0] == 0 && (w[1] < 0 || w[1] >= len(seq))) {
					wk = "window"
				}
				c.Key("%s/%s/e%d/%s/L%s/%s/hits%d/%s/rec%v", t.mode(), lenClass(n), k, constructs(model), lenClass(len(seq)), wk, min(ne, 3), plantKinds(plants), recycled)
			}
		}
		if q == 0 {
			c.Sample(map[string]any{"pattern": t.text, "errormax": k, "indel": indel, "sequence": string(seq), "plants": plants})
		}
		if unknownViolations(c) > 6 {
			break
		}
	}
}

func runMismatch(c *core.Ctx) { runSearch(c, false) }

const rule = "Real matcher (cgo obiapat + obialign.LocatePattern) executed next to naive oracles. " +
	"mismatch/indel: one random pattern per case (length 1..64, two cases out of twelve exactly 64; IUPAC codes, [..] classes, '!', '#'; budget 0..4, in indel mode 1..4 and below the pattern length, no '#') against 8 sequences over a,c,g,t (length 0..300, also shorter than / equal to the pattern) with planted occurrences carrying 0..budget+1 errors at offset 0, at the end, overlapping, truncated by either end; whole sequence and 3 random (begin,length) windows; fresh and recycled ApatSequence; FindAllIndex + IsMatching vs window scan (mismatch) or Sellers DP end positions (indel). " +
	"*-exhaustive: all patterns over acgt of length 1..3 x all sequences of length 0..5 (quick) / 0..7 (thorough) x budgets 0..2. " +
	"strand: hits of ReverseComplement(P) on s vs hits of P on revcomp(s) mirrored, and vs the oracle on the reversed model. " +
	"best: FilterBestMatch / AllMatches / BestMatch (span inside the sequence, error count = edit distance(pattern, span), reported iff some substring is within the budget). " +
	"locate: obialign.LocatePattern vs full-matrix semi-global DP. sanitizer / sanitizer-ubsan: ASan (go build -asan) and UBSan (shift,bounds,signed-integer-overflow,integer-divide-by-zero,null on the C side) builds of obigrep/obipcr/obiannotate on generated files, output compared with the plain build and (obigrep) with the oracle; mismatch, indel and best are also run on the -race twin (checkptr at the cgo boundary). " +
	"Added later: concurrent sub-check (one compiled pattern / one predicate shared by 2-16 goroutines), window lengths 2^20..MaxInt32, the reverse complement derived (once or twice) before half of the patterns are used. " +
	"distinct_nontrivial = distinct (mode, pattern-length class, budget, construct set, sequence-length class, window kind, number of expected hits capped at 3, plant geometry, recycled) classes among searches with at least one expected hit or planted occurrence (exhaustive parts: distinct (pattern, budget, sequence length) with at least one hit)"

func init() {
	core.Register(&core.Property{
		ID:    "C10",
		Level: "exploration",
		Rule:  rule,
		Assume: []string{
			"sequences are over a,c,g,t (lower case), patterns follow the documented grammar (IUPAC letters, [..], !, #) with 1..64 positions",
			"hits that end in the MAX_PAT_LEN margin FindAllIndex adds behind (begin,length) are neither required nor forbidden",
			"in indel mode the raw hits of FindAllIndex/FilterBestMatch identify end positions (nominal start = end - patlen); spans are checked on AllMatches/BestMatch/LocatePattern, whose documented purpose is to recover them",
			"indel mode: budget below the pattern length, no '#'; AllMatches/BestMatch re-alignment only with pure IUPAC patterns (documented restriction of AllMatches)",
		},
		Subs: []core.Sub{
			{Name: "mismatch", N: core.Const(1200, 40000), Run: runMismatch, Race: true, NRace: core.Const(24, 160)},
			{Name: "mismatch-exhaustive", N: core.Const(exShards, exShards), Run: runExhaustiveMismatch},
			{Name: "strand", N: core.Const(600, 16000), Run: runStrand},
			{Name: "indel", N: core.Const(1200, 40000), Run: runIndel, Race: true, NRace: core.Const(24, 160)},
			{Name: "indel-exhaustive", N: core.Const(exShards, exShards), Run: runExhaustiveIndel},
			{Name: "best", N: core.Const(800, 24000), Run: runBest, Race: true, NRace: core.Const(24, 160)},
			{Name: "locate", N: core.Const(400, 12000), Run: runLocate},
			{Name: "concurrent", N: core.Const(24, 240), Run: runConcurrent, Race: true, NRace: core.Const(6, 24), TimeoutS: 600},
			{Name: "last-use", N: core.Const(10, 40), Shard: 1, Run: runLastUse, TimeoutS: 900},
			{Name: "sanitizer", N: core.Const(24, 240), Run: runSanitizer, TimeoutS: 900},
			{Name: "sanitizer-ubsan", N: core.Const(1, 1), Run: runUbsan, TimeoutS: 1200},
		},
		Cmds:          []string{"obigrep", "obipcr", "obiannotate"},
		AsanCmds:      []string{"obigrep", "obipcr", "obiannotate"},
		MinNontrivial: 500,
		Post: func(tier string, counters map[string]int64) (inconclusive []string) {
			if os.Getenv("VERIF_ONLY") != "" {
				return nil
			}
			if counters["asan_runs"] == 0 {
				inconclusive = append(inconclusive, "no command run completed with the ASan build")
			}
			if counters["ubsan_runs"] == 0 {
				inconclusive = append(inconclusive, "no command run completed with the UBSan build")
			}
			return
		},
		RaceFiles: []string{"pkg/obiapat/", "pkg/obialign/locatepattern.go"},
	})
}
