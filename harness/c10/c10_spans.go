package c10

import (
	"fmt"

	"git.metabarcoding.org/obitools/obitools4/obitools4/pkg/obialign"
	"git.metabarcoding.org/obitools/obitools4/obitools4/pkg/obiapat"

	"verifh/core"
	"verifh/gen"
	"verifh/ref"
)

func caseDetail(t *target, seq []byte, begin, length int) map[string]any {
	return map[string]any{"pattern": t.text, "errormax": t.k, "indel": t.indel, "sequence": string(seq), "begin": begin, "length": length}
}

// lenRel is the discriminating feature of the re-alignment crashes.
func lenRel(seq []byte, t *target) string {
	if len(seq) <= len(t.model) {
		return "seqlen<=patlen"
	}
	return "seqlen>patlen"
}

// spanCause checks one reported span [s,e) with nerr errors against the clauses
// "inside the sequence" and "error count = edit distance(pattern, span)".
func spanCause(t *target, seq []byte, s, e, nerr int) string {
	switch {
	case s < 0:
		return "span-outside:start<0"
	case e > len(seq):
		return "span-outside:end>seqlen"
	case s > e:
		return "span-outside:start>end"
	case nerr > t.k:
		return "over-budget"
	case t.model.EditDistance(seq[s:e]) != nerr:
		return "errcount"
	}
	return ""
}

// checkAllMatches verifies AllMatches on the whole sequence (full=true) or a window.
// Mismatch mode: AllMatches = FilterBestMatch (checked by checkFilter). Indel mode:
// every span is re-aligned; the three clauses of the property apply.
func checkAllMatches(c *core.Ctx, t *target, seq []byte, as obiapat.ApatSequence, begin, length int) {
	var loc [][3]int
	msg := try(func() { loc = t.ap.AllMatches(as, begin, length) })
	c.Count("evaluations", 1)
	det := caseDetail(t, seq, begin, length)
	if msg != "" {
		det["panic"] = msg
		report(c, "AllMatches:panic:"+panicKind(msg)+":"+lenRel(seq, t)+t.lenTag(), "AllMatches panicked", det)
		return
	}
	det["got"] = loc
	lo, must, may := region(len(seq), begin, length)
	if !t.indel {
		if d := cmpSubset(t, seq, lo, must, may, toHits(loc)); d != "" {
			var raw [][3]int
			try(func() { raw = t.ap.FindAllIndex(as, begin, length) })
			report(c, "AllMatches:"+d+farTag(raw)+t.lenTag(), "AllMatches (mismatch mode) is not a sound, non-empty selection of the matching windows", det)
		}
		return
	}
	for _, m := range loc {
		if cause := spanCause(t, seq, m[0], m[1], m[2]); cause != "" {
			det["first_bad"] = m
			if m[0] >= 0 && m[1] <= len(seq) && m[0] <= m[1] {
				det["edit_distance_of_span"] = t.model.EditDistance(seq[m[0]:m[1]])
			}
			// a recognised structural situation names the cause; otherwise the failed clause does
			if f := allMatchesFeature(t, seq, as, begin, length, m); f != "other" {
				det["clause"] = cause
				cause = "bad-span:" + f
			}
			report(c, "AllMatches:"+cause+t.lenTag(), "AllMatches (indel mode) reports a span violating the span clauses", det)
			break
		}
	}
	// reported iff some substring is within the budget
	d := t.model.EndDistances(seq[lo:may])
	anyMust, anyMay := false, false
	for e := lo + 1; e <= may; e++ {
		if d[e-lo] <= t.k {
			anyMay = true
			if e <= must {
				anyMust = true
			}
		}
	}
	if anyMust && len(loc) == 0 {
		report(c, "AllMatches:missed"+t.lenTag(), "AllMatches reports nothing although a substring lies within the edit budget", det)
	}
	if !anyMay && len(loc) > 0 {
		// a re-aligned span may reach back before `begin`; it is spurious only if no substring of the whole sequence qualifies
		if t.model.MinSubstringDistance(seq) > t.k {
			report(c, "AllMatches:spurious"+t.lenTag(), "AllMatches reports a match although no substring lies within the edit budget", det)
		}
	}
}

// cmpSubset: mismatch-mode selection functions (FilterBestMatch, AllMatches) must
// return matching windows with their exact counts, at least one when one exists
// inside the window, and must keep a hit with the smallest error count.
func cmpSubset(t *target, seq []byte, lo, must, may int, got []ref.Hit) string {
	mayHits := t.model.MismatchHits(seq, t.k, lo, may)
	mustHits := t.model.MismatchHits(seq, t.k, lo, must)
	by := map[int]int{}
	minMay, minMust := 1<<30, 1<<30
	for _, h := range mayHits {
		by[h.Start] = h.Err
		minMay = min(minMay, h.Err)
	}
	for _, h := range mustHits {
		minMust = min(minMust, h.Err)
	}
	minGot := 1 << 30
	for _, h := range got {
		e, ok := by[h.Start]
		if !ok || h.End-h.Start != len(t.model) {
			return "spurious"
		}
		if e != h.Err {
			return "errors"
		}
		minGot = min(minGot, h.Err)
	}
	if len(mustHits) > 0 && len(got) == 0 {
		return "missed"
	}
	if len(got) > 0 && (minGot < minMay || (len(mustHits) > 0 && minGot > minMust)) {
		return "best-dropped"
	}
	return ""
}

// checkFilter verifies FilterBestMatch.
func checkFilter(c *core.Ctx, t *target, seq []byte, as obiapat.ApatSequence, begin, length int) {
	var loc, all [][3]int
	msg := try(func() {
		loc = t.ap.FilterBestMatch(as, begin, length)
		all = t.ap.FindAllIndex(as, begin, length)
	})
	c.Count("evaluations", 1)
	det := caseDetail(t, seq, begin, length)
	if msg != "" {
		det["panic"] = msg
		report(c, "FilterBestMatch:panic:"+panicKind(msg)+t.lenTag(), "FilterBestMatch panicked", det)
		return
	}
	det["got"] = loc
	det["FindAllIndex"] = all
	if !t.indel {
		lo, must, may := region(len(seq), begin, length)
		if d := cmpSubset(t, seq, lo, must, may, toHits(loc)); d != "" {
			report(c, "FilterBestMatch:"+d+farTag(all)+t.lenTag(), "FilterBestMatch (mismatch mode) is not a sound selection of the matching windows", det)
		}
		return
	}
	// indel mode: a selection of the raw hits, non-empty iff they are, keeping the smallest error count
	in := map[[3]int]bool{}
	minAll, minGot := 1<<30, 1<<30
	for _, h := range all {
		in[h] = true
		minAll = min(minAll, h[2])
	}
	for _, h := range loc {
		if !in[h] {
			report(c, "FilterBestMatch:spurious"+t.lenTag(), "FilterBestMatch (indel mode) returns a hit FindAllIndex did not report", det)
			return
		}
		minGot = min(minGot, h[2])
	}
	if (len(all) > 0) != (len(loc) > 0) {
		report(c, "FilterBestMatch:missed"+farTag(all)+t.lenTag(), "FilterBestMatch (indel mode) is empty although FindAllIndex reported hits", det)
	} else if minGot != minAll {
		report(c, "FilterBestMatch:best-dropped"+t.lenTag(), "FilterBestMatch (indel mode) dropped the hit with the fewest errors", det)
	}
}

// checkBestMatch verifies BestMatch.
func checkBestMatch(c *core.Ctx, t *target, seq []byte, as obiapat.ApatSequence, begin, length int) {
	var s, e, nerr int
	var matched bool
	var raw [][3]int
	msg := try(func() {
		raw = t.ap.FindAllIndex(as, begin, length)
		s, e, nerr, matched = t.ap.BestMatch(as, begin, length)
	})
	c.Count("evaluations", 1)
	det := caseDetail(t, seq, begin, length)
	det["FindAllIndex"] = raw
	if msg != "" {
		det["panic"] = msg
		report(c, "BestMatch:panic:"+panicKind(msg)+":"+lenRel(seq, t)+t.lenTag(), "BestMatch panicked", det)
		return
	}
	det["got"] = map[string]any{"start": s, "end": e, "nerr": nerr, "matched": matched}
	lo, must, may := region(len(seq), begin, length)
	if !t.indel {
		got := []ref.Hit{}
		if matched {
			got = append(got, ref.Hit{Start: s, End: e, Err: nerr})
		}
		if d := cmpSubset(t, seq, lo, must, may, got); d != "" {
			report(c, "BestMatch:"+d+t.lenTag(), "BestMatch (mismatch mode) is not a matching window with the smallest mismatch count", det)
		}
		return
	}
	d := t.model.EndDistances(seq[lo:may])
	minMust, minMay := 1<<30, 1<<30
	for x := lo + 1; x <= may; x++ {
		minMay = min(minMay, d[x-lo])
		if x <= must {
			minMust = min(minMust, d[x-lo])
		}
	}
	if !matched {
		if minMust <= t.k {
			// which structural situation? the best raw hit has a nominal start before the sequence start
			feature := "other"
			best := [3]int{0, 0, 1 << 30}
			for _, h := range raw {
				if h[2] < best[2] {
					best = h
				}
			}
			if best[2] < 1<<30 && best[0] < 0 {
				feature = "best-raw-hit-nominal-start<0"
			}
			report(c, "BestMatch:missed:"+feature+t.lenTag(), "BestMatch reports no match although a substring lies within the edit budget", det)
		}
		return
	}
	if minMay > t.k && t.model.MinSubstringDistance(seq) > t.k {
		report(c, "BestMatch:spurious"+t.lenTag(), "BestMatch reports a match although no substring lies within the edit budget", det)
		return
	}
	if cause := spanCause(t, seq, s, e, nerr); cause != "" {
		if s >= 0 && e <= len(seq) && s <= e {
			det["edit_distance_of_span"] = t.model.EditDistance(seq[s:e])
		}
		f := bestMatchFeature(t, seq, raw, s, e, nerr)
		if f == "locate-start-1" || f == "end-shifted-by-from" {
			det["clause"] = cause
			cause = "bad-span"
		}
		report(c, "BestMatch:"+cause+":"+f+t.lenTag(), "BestMatch (indel mode) reports a span violating the span clauses", det)
		return
	}
	// the best match cannot have more errors than the best substring of the window
	if begin <= 0 && (length < 0 || length >= len(seq)) && nerr != minMust {
		report(c, "BestMatch:not-best"+t.lenTag(), "BestMatch over the whole sequence does not have the smallest edit distance", det)
	}
}

// pureOpts: patterns the re-alignment (LocatePattern on the raw pattern text) supports.
func pureOpts(c *core.Ctx) gen.PatOpts {
	switch c.Rng.Intn(3) {
	case 0:
		return gen.PatOpts{LowCx: 250}
	case 1:
		return gen.PatOpts{Ambig: 120, LowCx: 100}
	}
	return gen.PatOpts{Ambig: 350}
}

// runIndel: search level (FindAllIndex/IsMatching end positions) with all
// constructs except '#', then AllMatches with pure IUPAC patterns.
func runIndel(c *core.Ctx) {
	if c.Idx%2 == 0 {
		runSearch(c, true)
		return
	}
	r := c.Rng
	n := pickPatLen(c)
	if n < 2 {
		n = 2 + r.Intn(10)
	}
	if n == maxPatLen { // the maximal length is the business of the search-level cases
		n = 33 + r.Intn(31)
	}
	model := gen.PatternModel(r, n, pureOpts(c))
	k := 1 + r.Intn(min(4, n-1))
	c.Risk("compile:" + lenClass(n))
	t, err := compile(model, r.Intn(2) == 0, k, true)
	if err != nil {
		report(c, "pattern-rejected:"+constructs(model), "a pattern of the documented grammar is rejected by MakeApatPattern",
			map[string]any{"pattern": model.Text(false), "errormax": k, "indel": true, "error": err.Error()})
		return
	}
	c.Risk("AllMatches:indel:" + lenClass(n))
	var prev *obiapat.ApatSequence
	for q := 0; q < 8; q++ {
		L := pickSeqLen(c, n)
		seq, plants := gen.PlantedSeq(r, model, L, k, true)
		as, err := apatSeq(seq, prev)
		if err != nil {
			prev = nil
			continue
		}
		prev = &as
		checkAllMatches(c, t, seq, as, 0, -1)
		if r.Intn(2) == 0 && len(seq) > 0 {
			b := r.Intn(len(seq))
			checkAllMatches(c, t, seq, as, b, -1)
		}
		if len(plants) > 0 {
			c.Key("allmatches/%s/e%d/%s/L%s/%s/%s", lenClass(n), k, constructs(model), lenClass(len(seq)), plantKinds(plants), lenRel(seq, t))
		}
		if q == 0 {
			c.Sample(map[string]any{"api": "AllMatches", "pattern": t.text, "errormax": k, "indel": true, "sequence": string(seq), "plants": plants})
		}
		if unknownViolations(c) > 6 {
			break
		}
	}
}

// runBest: FilterBestMatch, AllMatches (mismatch mode), BestMatch in both modes.
func runBest(c *core.Ctx) {
	r := c.Rng
	indel := c.Idx%2 == 1
	n := pickPatLen(c)
	if n == maxPatLen { // the maximal length is the business of the search-level sub-checks
		n = 33 + r.Intn(31)
	}
	var model ref.PatModel
	k := r.Intn(5)
	if indel {
		if n < 2 {
			n = 2 + r.Intn(10)
		}
		model = gen.PatternModel(r, n, pureOpts(c))
		k = 1 + r.Intn(min(4, n-1))
	} else {
		model = gen.PatternModel(r, n, pickOpts(c))
	}
	// one case out of 8: a long read whose only occurrence lies beyond offset 10000
	// (a specific pattern, so that the random background holds no other hit)
	long := c.Idx%8 == 6
	if long {
		n = 20 + r.Intn(20)
		k = r.Intn(3)
		if indel {
			k = 1 + r.Intn(2)
			model = gen.PatternModel(r, n, gen.PatOpts{Ambig: 60})
		} else {
			model = gen.PatternModel(r, n, gen.PatOpts{Ambig: 60, Oblig: 60})
		}
	}
	c.Risk("compile:" + lenClass(n))
	t, err := compile(model, r.Intn(2) == 0, k, indel)
	if err != nil {
		report(c, "pattern-rejected:"+constructs(model), "a pattern of the documented grammar is rejected by MakeApatPattern",
			map[string]any{"pattern": model.Text(false), "errormax": k, "indel": indel, "error": err.Error()})
		return
	}
	c.Risk("best:" + t.mode() + ":" + lenClass(n))
	var prev *obiapat.ApatSequence
	for q := 0; q < 8; q++ {
		L := pickSeqLen(c, n)
		seq, plants := gen.PlantedSeq(r, model, L, k, indel)
		if long && q == 0 {
			seq = gen.DNA(r, 10000+n+r.Intn(2000))
			var occ []byte
			e := r.Intn(k + 1)
			if indel {
				occ = gen.Mutate(r, gen.Instance(r, model), e)
			} else {
				occ = gen.Mismatched(r, model, e, true)
			}
			pos := 10000 + r.Intn(len(seq)-10000-len(occ)+1)
			copy(seq[pos:], occ)
			plants = []gen.Plant{{Pos: pos, Errors: e, Kind: "beyond-10000"}}
		}
		as, err := apatSeq(seq, prev)
		if err != nil {
			prev = nil
			continue
		}
		prev = &as
		ws := [][2]int{{0, -1}, {0, len(seq)}}
		if len(seq) > 0 {
			b := r.Intn(len(seq))
			ws = append(ws, [2]int{b, -1}, [2]int{b, r.Intn(len(seq) - b + 1)})
		}
		if len(seq) > 10000 {
			ws = ws[:3]
		}
		for _, w := range ws {
			checkFilter(c, t, seq, as, w[0], w[1])
			checkBestMatch(c, t, seq, as, w[0], w[1])
			if !indel {
				checkAllMatches(c, t, seq, as, w[0], w[1])
			}
		}
		if len(plants) > 0 {
			c.Key("best/%s/%s/e%d/%s/L%s/%s", t.mode(), lenClass(n), k, constructs(model), lenClass(len(seq)), plantKinds(plants))
		}
		if q == 0 {
			c.Sample(map[string]any{"api": "FilterBestMatch/BestMatch/AllMatches", "pattern": t.text, "errormax": k, "indel": indel, "sequence": string(seq), "plants": plants})
		}
		if unknownViolations(c) > 6 {
			break
		}
	}
}

// locateCause checks LocatePattern(pattern, seq) against the semi-global DP.
func locateCause(model ref.PatModel, pattern, seq []byte) (cause string, det map[string]any) {
	var from, to, nerr int
	msg := try(func() { from, to, nerr = obialign.LocatePattern("s", pattern, seq) })
	det = map[string]any{"pattern": string(pattern), "sequence": string(seq)}
	if msg != "" {
		det["panic"] = msg
		return "panic:" + panicKind(msg), det
	}
	want := model.MinSubstringDistance(seq)
	det["got"] = []int{from, to, nerr}
	det["min_substring_distance"] = want
	lp := ":patlen>1"
	if len(model) == 1 {
		lp = ":patlen=1"
	}
	switch {
	case nerr != want:
		return "score" + lp, det
	case from < 0:
		return "span-outside:start<0" + lp, det
	case to > len(seq):
		return "span-outside:end>seqlen" + lp, det
	case from > to:
		return "span-outside:start>end" + lp, det
	}
	if d := model.EditDistance(seq[from:to]); d != nerr {
		det["edit_distance_of_span"] = d
		return "errcount" + lp, det
	}
	return "", det
}

// runLocate: LocatePattern directly, pattern strictly shorter than the sequence
// (its stated precondition), pure IUPAC pattern text in either case.
func runLocate(c *core.Ctx) {
	r := c.Rng
	for q := 0; q < 12; q++ {
		n := 2 + r.Intn(30)
		switch r.Intn(12) {
		case 0:
			n = 1
		case 1:
			n = 33 + r.Intn(31)
		}
		model := gen.PatternModel(r, n, pureOpts(c))
		k := r.Intn(min(5, n))
		occ := gen.Mutate(r, gen.Instance(r, model), k)
		var seq []byte
		switch r.Intn(5) {
		case 0: // occurrence at the very start
			seq = append(occ, gen.DNA(r, 1+r.Intn(12))...)
		case 1: // at the very end
			seq = append(gen.DNA(r, 1+r.Intn(12)), occ...)
		case 2: // the first symbols of the occurrence are cut by the start of the sequence
			cut := 1 + r.Intn(2)
			if cut < len(occ) {
				occ = occ[cut:]
			}
			seq = append(occ, gen.DNA(r, 2+r.Intn(12))...)
		default:
			seq = append(append(gen.DNA(r, r.Intn(12)), occ...), gen.DNA(r, r.Intn(12))...)
		}
		for len(seq) <= n {
			seq = append(seq, gen.ACGT[r.Intn(4)])
		}
		pat := []byte(model.Text(r.Intn(2) == 0))
		c.Risk("LocatePattern")
		cause, det := locateCause(model, pat, seq)
		c.Count("evaluations", 1)
		if cause != "" {
			report(c, cause, "obialign.LocatePattern disagrees with the semi-global edit-distance DP", det)
		}
		c.Key("locate/%s/e%d/%s/L%d", lenClass(n), k, constructs(model), min(len(seq)-n, 12))
		if q == 0 {
			c.Sample(det)
		}
	}
}

// ---------------------------------------------------------------------------
// exhaustive sub-spaces

const exShards = 32

// exTargets compiles every pattern over acgt of length 1..3 with budgets 0..2.
func exTargets(indel bool) ([]*target, error) {
	var ts []*target
	n := gen.CountStrings(3)
	for i := 1; i < n; i++ {
		s := gen.NthString(i)
		model := make(ref.PatModel, len(s))
		for j, b := range s {
			model[j] = ref.PatPos{Letters: string(b)}
		}
		for k := 0; k <= 2; k++ {
			if indel && (k == 0 || k >= len(s)) {
				continue
			}
			t, err := compile(model, false, k, indel)
			if err != nil {
				return nil, fmt.Errorf("pattern %s rejected: %v", s, err)
			}
			ts = append(ts, t)
		}
	}
	return ts, nil
}

func runExhaustive(c *core.Ctx, indel bool) {
	maxLen := c.Pick(5, 7)
	ts, err := exTargets(indel)
	if err != nil {
		report(c, "pattern-rejected:plain", err.Error(), nil)
		return
	}
	n := gen.CountStrings(maxLen)
	per := (n + exShards - 1) / exShards
	c.Risk("exhaustive:" + map[bool]string{false: "mismatch", true: "indel"}[indel])
	var prev *obiapat.ApatSequence
	for is := c.Idx * per; is < min(n, (c.Idx+1)*per); is++ {
		seq := gen.NthString(is)
		as, err := apatSeq(seq, prev)
		if err != nil {
			report(c, "sequence-rejected", "MakeApatSequence fails on a sequence over a,c,g,t", map[string]any{"sequence": string(seq), "error": err.Error()})
			prev = nil
			continue
		}
		recycled := prev != nil
		prev = &as
		for _, t := range ts {
			ne := checkSearch(c, t, seq, as, 0, -1, recycled)
			if indel {
				checkAllMatches(c, t, seq, as, 0, -1)
				checkBestMatch(c, t, seq, as, 0, -1)
			} else if len(seq) > 1 {
				// one window per pair, derived from the indices (deterministic)
				b := (is + len(t.text)) % len(seq)
				l := (is/3 + t.k) % (len(seq) - b + 1)
				checkSearch(c, t, seq, as, b, l, recycled)
			}
			if ne > 0 {
				c.Key("ex/%s/%s/%d/%d", t.mode(), t.text, t.k, len(seq))
			}
		}
		if unknownViolations(c) > 12 {
			break
		}
	}
	if c.Idx == 0 {
		c.Sample(map[string]any{"enumeration": fmt.Sprintf("all patterns over acgt of length 1..3 x budgets 0..2 (indel: 1..patlen-1) x all sequences over acgt of length 0..%d", maxLen), "targets": len(ts)})
	}
}

func runExhaustiveMismatch(c *core.Ctx) { runExhaustive(c, false) }
func runExhaustiveIndel(c *core.Ctx)    { runExhaustive(c, true) }

// relocate replays LocatePattern on the fragment [fs,fe) of seq with the pattern text the C side stores.
func relocate(t *target, seq []byte, fs, fe int) (from, to, score int, ok bool) {
	if fs < 0 || fe > len(seq) || fs > fe {
		return 0, 0, 0, false
	}
	msg := try(func() { from, to, score = obialign.LocatePattern("s", []byte(t.model.Text(true)), seq[fs:fe]) })
	return from, to, score, msg == ""
}

// allMatchesFeature names, for a bad span m reported by AllMatches, the structural
// situation that produced it. It replays the re-alignment of every hit of
// FilterBestMatch through the public API (classification only, never a verdict).
func allMatchesFeature(t *target, seq []byte, as obiapat.ApatSequence, begin, length int, m [3]int) string {
	var filtered [][3]int
	if try(func() { filtered = t.ap.FilterBestMatch(as, begin, length) }) != "" {
		return "other"
	}
	for _, f := range filtered {
		if f[2] == 0 {
			continue
		}
		fs := max(f[0]-2*f[2], 0)
		fe := min(fs+len(t.model)+4*f[2], len(seq))
		from, to, score, ok := relocate(t, seq, fs, fe)
		if ok && [3]int{fs + from, fs + to, score} == m && from == -1 {
			return "locate-start-1"
		}
	}
	return "other"
}

// bestMatchFeature does the same for BestMatch (fragment = best raw hit widened by its error count).
func bestMatchFeature(t *target, seq []byte, raw [][3]int, s, e, nerr int) string {
	best := [3]int{0, 0, 1 << 30}
	for _, h := range raw {
		if h[2] < best[2] {
			best = h
		}
	}
	if best[2] == 0 || best[2] == 1<<30 {
		return "direct"
	}
	fs := max(best[0]-best[2], 0)
	fe := min(best[0]+len(t.model)+best[2], len(seq))
	from, to, score, ok := relocate(t, seq, fs, fe)
	switch {
	case !ok:
		return "realigned"
	case from == -1:
		return "locate-start-1"
	case from > 0 && s == fs+from && e == fs+from+to && nerr == score:
		return "end-shifted-by-from"
	}
	return "realigned"
}

// farTag is the discriminating feature of hits lost by the selection functions:
// the first raw hit lies at offset 10000 or beyond.
func farTag(raw [][3]int) string {
	if len(raw) > 0 && raw[0][0]-raw[0][2] >= 10000 {
		return ":first-hit-offset>=10000"
	}
	return ""
}
