package c10

import (
	"fmt"
	"sync"
	"sync/atomic"

	"git.metabarcoding.org/obitools/obitools4/obitools4/pkg/obiapat"
	"git.metabarcoding.org/obitools/obitools4/obitools4/pkg/obiseq"

	"verifh/core"
	"verifh/gen"
)

func hamming(seq, pat []byte, e int) bool {
	for s := 0; s+len(pat) <= len(seq); s++ {
		mm := 0
		for j := 0; j < len(pat) && mm <= e; j++ {
			if seq[s+j] != pat[j] {
				mm++
			}
		}
		if mm <= e {
			return true
		}
	}
	return false
}

func revcompACGT(s []byte) []byte {
	out := make([]byte, len(s))
	for i := range s {
		out[len(s)-1-i] = map[byte]byte{'a': 't', 'c': 'g', 'g': 'c', 't': 'a'}[s[i]]
	}
	return out
}

// runConcurrent: one compiled pattern / one predicate shared by 2-16 goroutines, the way obigrep,
// obipcr and obimultiplex use them from their parallel workers. Every answer must be the answer
// obtained alone (which is itself compared with a window scan for substitution-only patterns).
func runConcurrent(c *core.Ctx) {
	r := c.Rng
	pl := 8 + r.Intn(14)
	pat := gen.DNA(r, pl)
	e := r.Intn(3)
	indel := c.Idx%3 == 2 && e > 0
	both := r.Intn(2) == 0
	var seqs []*obiseq.BioSequence
	var raw [][]byte
	for i := 0; i < c.Pick(150, 400); i++ {
		s := gen.DNA(r, 40+r.Intn(260))
		if r.Intn(2) == 0 { // plant an occurrence with 0..e+1 substitutions, on either strand
			occ := append([]byte{}, pat...)
			for k := r.Intn(e + 2); k > 0; k-- {
				occ[r.Intn(pl)] = "acgt"[r.Intn(4)]
			}
			if r.Intn(2) == 0 {
				occ = revcompACGT(occ)
			}
			at := r.Intn(len(s) - pl + 1)
			copy(s[at:], occ)
		}
		raw = append(raw, s)
		seqs = append(seqs, obiseq.NewBioSequence(fmt.Sprintf("s%d", i), append([]byte{}, s...), ""))
	}
	pred := obiapat.IsPatternMatchSequence(string(pat), e, both, indel)
	ap, err := obiapat.MakeApatPattern(string(pat), e, indel)
	if err != nil {
		c.Violate("pattern-rejected", "a plain a,c,g,t pattern is rejected", map[string]any{"pattern": string(pat), "error": err.Error()})
		return
	}
	alone := make([]bool, len(seqs))
	aloneHits := make([]string, len(seqs))
	for i, s := range seqs {
		alone[i] = pred(s)
		as, _ := obiapat.MakeApatSequence(s, false)
		aloneHits[i] = fmt.Sprint(ap.FindAllIndex(as, 0, -1))
		if !indel {
			want := hamming(raw[i], pat, e) || (both && hamming(raw[i], revcompACGT(pat), e))
			if alone[i] != want {
				c.Violate("predicate:alone", "IsPatternMatchSequence disagrees with the window scan", map[string]any{"pattern": string(pat), "errormax": e, "both_strands": both, "sequence": string(raw[i]), "got": alone[i]})
				return
			}
		}
	}
	workers := []int{2, 4, 8, 16}[c.Idx%4]
	rounds := c.Pick(4, 12)
	type bad struct {
		cause string
		det   map[string]any
	}
	found := make(chan bad, 2*workers)
	var evals atomic.Int64
	var wg sync.WaitGroup
	for w := 0; w < workers; w++ {
		wg.Add(1)
		go func(w int) {
			defer wg.Done()
			var recycled obiapat.ApatSequence
			have := false
			report := func(cause string, i int, got any) {
				select {
				case found <- bad{cause, map[string]any{"pattern": string(pat), "errormax": e, "indel": indel, "both_strands": both, "sequence": string(raw[i]), "goroutines": workers, "got": got, "alone_predicate": alone[i], "alone_hits": aloneHits[i]}}:
				default:
				}
			}
			for rd := 0; rd < rounds; rd++ {
				for k := range seqs {
					i := (k*5 + w*17 + rd) % len(seqs)
					func() {
						defer func() {
							if x := recover(); x != nil {
								report("concurrent:panic", i, fmt.Sprint(x))
							}
						}()
						evals.Add(2)
						if got := pred(seqs[i]); got != alone[i] {
							report("concurrent:predicate", i, got)
						}
						var as obiapat.ApatSequence
						var err error
						if have {
							as, err = obiapat.MakeApatSequence(seqs[i], false, recycled)
						} else {
							as, err = obiapat.MakeApatSequence(seqs[i], false)
						}
						if err != nil {
							report("concurrent:sequence-rejected", i, err.Error())
							return
						}
						recycled, have = as, true
						if got := fmt.Sprint(ap.FindAllIndex(as, 0, -1)); got != aloneHits[i] {
							report("concurrent:shared-pattern", i, got)
						}
					}()
				}
			}
		}(w)
	}
	wg.Wait()
	close(found)
	c.Count("evaluations", int(evals.Load()))
	c.Count("concurrent_evaluations", int(evals.Load()))
	nmatch := 0
	for _, a := range alone {
		if a {
			nmatch++
		}
	}
	if nmatch > 0 && nmatch < len(alone) {
		c.Key("concurrent/%d/%d/%v/%v/%d", workers, e, indel, both, pl)
	}
	if c.Idx < 2 {
		c.Sample(map[string]any{"pattern": string(pat), "errormax": e, "indel": indel, "both_strands": both, "sequences": len(seqs), "matching_alone": nmatch, "goroutines": workers})
	}
	seen := map[string]bool{}
	for b := range found {
		if !seen[b.cause] {
			seen[b.cause] = true
			c.Violate(b.cause, "a pattern search gives, while other goroutines search with the same pattern or predicate, an answer different from the one it gives alone", b.det)
		}
	}
}
