package c10

import (
	"bytes"
	"fmt"
	"os"
	"os/exec"
	"path/filepath"
	"regexp"
	"sort"
	"strings"
	"syscall"

	"verifh/core"
	"verifh/gen"
	"verifh/ref"
)

// The sanitizer sub-check runs commands that reach the pattern matcher on
// generated files, with the plain build and with the ASan build (go build -asan:
// the C code of obiapat is instrumented, the Go heap is poisoned around
// allocations). Any sanitizer report, abnormal death or output difference
// between the two builds is a violation; obigrep's selection is also compared
// with the oracle.

type cmdResult struct {
	stdout, stderr []byte
	exit           int
	err            error
	killed         bool // ended by SIGKILL (memory pressure, external kill): proves nothing
}

func runCmd(bin string, env []string, args ...string) cmdResult {
	cmd := exec.Command(bin, args...)
	var so, se bytes.Buffer
	cmd.Stdout = &so
	cmd.Stderr = &se
	cmd.Env = append(os.Environ(), env...)
	err := cmd.Run()
	r := cmdResult{stdout: so.Bytes(), stderr: se.Bytes()}
	if err != nil {
		if ee, ok := err.(*exec.ExitError); ok {
			r.exit = ee.ExitCode()
			if ws, ok := ee.Sys().(syscall.WaitStatus); ok && ws.Signaled() && ws.Signal() == syscall.SIGKILL {
				r.killed = true
			}
		} else {
			r.err = err
			r.exit = -1
		}
	}
	return r
}

// parseFasta returns id -> "header\nsequence" and the ids in order.
func parseFasta(b []byte) (map[string]string, []string) {
	recs := map[string]string{}
	var order []string
	var id, head string
	var seq strings.Builder
	flush := func() {
		if id != "" {
			recs[id] = head + "\n" + seq.String()
			order = append(order, id)
		}
		seq.Reset()
	}
	for _, line := range strings.Split(string(b), "\n") {
		if strings.HasPrefix(line, ">") {
			flush()
			head = strings.TrimSpace(line[1:])
			id = strings.Fields(line[1:] + " ")[0]
			continue
		}
		seq.WriteString(strings.TrimSpace(line))
	}
	flush()
	return recs, order
}

var asanKind = regexp.MustCompile(`AddressSanitizer: ([a-zA-Z-]+)`)
var ubsanLine = regexp.MustCompile(`(?m)^(\S+\.[ch]):\d+:\d+: runtime error: (.*)$`)

// sanitizerVerdict compares the ASan run with the plain run; returns a cause ("" = clean).
func sanitizerVerdict(v *variant, cmd string, plain, asan cmdResult) (string, string) {
	if asan.killed || asan.err != nil {
		return "", "" // counted as not run by the caller
	}
	if m := asanKind.FindSubmatch(asan.stderr); m != nil {
		return "asan:" + string(m[1]) + ":" + cmd, "AddressSanitizer report"
	}
	if m := ubsanLine.FindSubmatch(asan.stderr); m != nil {
		kind := "other"
		msg := string(m[2])
		switch {
		case strings.Contains(msg, "shift exponent") || strings.Contains(msg, "left shift"):
			kind = "shift"
		case strings.Contains(msg, "out of bounds"):
			kind = "bounds"
		case strings.Contains(msg, "signed integer overflow"):
			kind = "signed-overflow"
		case strings.Contains(msg, "division by zero"):
			kind = "div-by-zero"
		case strings.Contains(msg, "null pointer"):
			kind = "null"
		}
		return "ubsan:" + kind + ":" + filepath.Base(string(m[1])), "UndefinedBehaviorSanitizer: " + msg
	}
	if asan.exit != plain.exit {
		return v.name + ":exit-differs:" + cmd, fmt.Sprintf("exit status %d with the %s build, %d with the plain build", asan.exit, v.name, plain.exit)
	}
	pr, _ := parseFasta(plain.stdout)
	ar, _ := parseFasta(asan.stdout)
	if len(pr) != len(ar) {
		return v.name + ":output-differs:" + cmd, "the instrumented build and the plain build select different records"
	}
	for id, rec := range pr {
		if ar[id] != rec {
			return v.name + ":output-differs:" + cmd, "the instrumented build and the plain build write different records (" + id + ")"
		}
	}
	return "", ""
}

func tailBytes(b []byte, n int) string {
	if len(b) > n {
		b = b[len(b)-n:]
	}
	return string(b)
}

var asanEnv = []string{"ASAN_OPTIONS=detect_leaks=0:abort_on_error=0:exitcode=97", "OBIMAXCPU=2"}

type e2eSeq struct {
	id  string
	seq []byte
}

func writeFasta(path string, seqs []e2eSeq) error {
	var b bytes.Buffer
	for _, s := range seqs {
		fmt.Fprintf(&b, ">%s\n", s.id)
		for i := 0; i < len(s.seq); i += 70 {
			b.Write(s.seq[i:min(len(s.seq), i+70)])
			b.WriteByte('\n')
		}
	}
	return os.WriteFile(path, b.Bytes(), 0o644)
}

// variant is one instrumented build of the commands.
type variant struct {
	name string   // asan | ubsan
	dir  string   // directory of the instrumented commands
	env  []string // environment of the instrumented runs
	uid  int      // distinguishes the input files of the workloads of one case
	// forceLen > 0 forces the pattern length of the obigrep workload
	forceLen int
}

func runSanitizer(c *core.Ctx) {
	v := &variant{name: "asan", dir: filepath.Join(c.BinDir, "asan"), env: asanEnv}
	switch c.Idx % 3 {
	case 0:
		e2eGrep(c, v)
	case 1:
		e2ePcr(c, v)
	default:
		e2eAnnotate(c, v)
	}
}

func binaries(c *core.Ctx, v *variant, name string) (plain, asan string, ok bool) {
	plain = filepath.Join(c.BinDir, name)
	asan = filepath.Join(v.dir, name)
	for _, p := range []string{plain, asan} {
		if _, err := os.Stat(p); err != nil {
			c.Inconclusive("command not built: " + p)
			return "", "", false
		}
	}
	return plain, asan, true
}

const ubsanCFlags = "-w -g -O1 -fsanitize=shift,bounds,signed-integer-overflow,integer-divide-by-zero,null -fno-sanitize-recover=all"

// runUbsan builds the three commands with UBSan on the C side (the supervisor
// has no such build) and runs the same end-to-end workloads with them.
// 'alignment' is left out on purpose: buildPattern stores its uint32 codes at an
// unaligned offset, which is harmless on the supported platforms and changes no result.
func runUbsan(c *core.Ctx) {
	dir := filepath.Join(c.Dir, "ubsan")
	os.MkdirAll(dir, 0o755)
	args := []string{"build", "-tags", "verif"}
	if mf := os.Getenv("VH_MODFILE"); mf != "" {
		args = append(args, "-modfile="+mf)
	}
	args = append(args, "-o", dir+"/")
	for _, n := range []string{"obigrep", "obipcr", "obiannotate"} {
		args = append(args, "git.metabarcoding.org/obitools/obitools4/obitools4/cmd/obitools/"+n)
	}
	cmd := exec.Command("go", args...)
	cmd.Dir = filepath.Join(core.VerifDir, "harness")
	cmd.Env = append(os.Environ(), "CGO_CFLAGS="+ubsanCFlags, "CGO_LDFLAGS=-fsanitize=undefined")
	if out, err := cmd.CombinedOutput(); err != nil {
		c.Inconclusive("UBSan build failed: " + tailBytes(out, 400))
		return
	}
	defer os.RemoveAll(dir)
	v := &variant{name: "ubsan", dir: dir, env: []string{"UBSAN_OPTIONS=print_stacktrace=0", "OBIMAXCPU=2"}}
	n := c.Pick(12, 60)
	for w := 0; w < n; w++ {
		v.uid = w
		v.forceLen = 0
		switch {
		case w == 1:
			v.forceLen = maxPatLen // the documented maximal pattern length
			e2eGrep(c, v)
		case w%3 == 0:
			e2eGrep(c, v)
		case w%3 == 1:
			e2ePcr(c, v)
		default:
			e2eAnnotate(c, v)
		}
	}
}

// e2eGrep: obigrep --approx-pattern.
func e2eGrep(c *core.Ctx, v *variant) {
	plainBin, asanBin, ok := binaries(c, v, "obigrep")
	if !ok {
		return
	}
	r := c.Rng
	indel := r.Intn(3) == 0
	forwardOnly := r.Intn(2) == 0
	n := 1 + r.Intn(40)
	if r.Intn(6) == 0 {
		n = 41 + r.Intn(23)
	}
	if v.forceLen > 0 {
		n = v.forceLen
	}
	opts := pickOpts(c)
	if !forwardOnly {
		opts.Neg = 0 // the command reverse-complements the pattern: keep to what the strand sub-check shows to be supported
	}
	k := r.Intn(5)
	if indel {
		n = max(n, 2)
		k = 1 + r.Intn(min(4, n-1))
		opts.Oblig = 0
	}
	model := gen.PatternModel(r, n, opts)
	for i := range model {
		// obigrep always builds the reverse-complemented pattern, which the API refuses for a negated class
		if model[i].Class {
			model[i].Neg = false
		}
	}
	rcModel := model.RevComp()
	nseq := c.Pick(60, 150)
	seqs := make([]e2eSeq, nseq)
	expected := map[string]bool{}
	matches := func(m ref.PatModel, s []byte) bool {
		if indel {
			d := m.EndDistances(s)
			for e := 1; e < len(d); e++ {
				if d[e] <= k {
					return true
				}
			}
			return false
		}
		return len(m.MismatchHits(s, k, 0, len(s))) > 0
	}
	for i := range seqs {
		L := 1 + pickSeqLen(c, n)
		pm := model
		if !forwardOnly && r.Intn(2) == 0 {
			pm = rcModel
		}
		s, _ := gen.PlantedSeq(r, pm, L, k, indel)
		seqs[i] = e2eSeq{fmt.Sprintf("s%03d", i), s}
		if matches(model, s) || (!forwardOnly && matches(rcModel, s)) {
			expected[seqs[i].id] = true
		}
	}
	in := filepath.Join(c.Dir, fmt.Sprintf("grep_%d_%d.fasta", c.Idx, v.uid))
	if err := writeFasta(in, seqs); err != nil {
		c.Inconclusive("cannot write input file")
		return
	}
	defer os.Remove(in)
	args := []string{"--no-progressbar", "--approx-pattern", model.Text(r.Intn(2) == 0), "--pattern-error", fmt.Sprint(k)}
	if indel {
		args = append(args, "--allows-indels")
	}
	if forwardOnly {
		args = append(args, "--only-forward")
	}
	args = append(args, in)
	det := map[string]any{"command": "obigrep " + strings.Join(args[:len(args)-1], " "), "sequences": nseq}
	plain := runCmd(plainBin, []string{"OBIMAXCPU=2"}, args...)
	c.Count("evaluations", 1)
	if plain.killed || plain.err != nil {
		c.Inconclusive("obigrep could not be run to completion (killed / not started)")
		return
	}
	if plain.exit != 0 {
		if n == maxPatLen && bytes.Contains(plain.stderr, []byte("error in sequence regular pattern syntax")) {
			// the command does not accept the maximal documented length: nothing to compare
			c.Count("len64_rejected", 1)
			return
		}
		det["stderr"] = tailBytes(plain.stderr, 1500)
		report(c, fmt.Sprintf("e2e:obigrep:exit%d", plain.exit), "obigrep --approx-pattern fails on a well-formed file and pattern", det)
		return
	}
	got, _ := parseFasta(plain.stdout)
	if v.forceLen == maxPatLen {
		// the selection made with a 64-position pattern is checked (and recorded) by the sub-checks mismatch/indel;
		// this workload only asks the sanitizer
		got = map[string]string{}
		expected = map[string]bool{}
	}
	var missing, spurious []string
	for id := range expected {
		if _, ok := got[id]; !ok {
			missing = append(missing, id)
		}
	}
	for id := range got {
		if !expected[id] {
			spurious = append(spurious, id)
		}
	}
	sort.Strings(missing)
	sort.Strings(spurious)
	tag := ""
	if n == maxPatLen {
		tag = ":len64"
	}
	mode := ":mismatch"
	if indel {
		mode = ":indel"
	}
	find := func(id string) string {
		for _, s := range seqs {
			if s.id == id {
				return string(s.seq)
			}
		}
		return ""
	}
	if len(missing) > 0 {
		det["missing_ids"] = missing
		det["first_missing_sequence"] = find(missing[0])
		report(c, "e2e:obigrep:missing"+mode+tag, "obigrep --approx-pattern drops a sequence that matches the pattern within the budget", det)
	}
	if len(spurious) > 0 {
		det["spurious_ids"] = spurious
		det["first_spurious_sequence"] = find(spurious[0])
		report(c, "e2e:obigrep:spurious"+mode+tag, "obigrep --approx-pattern keeps a sequence that does not match the pattern within the budget", det)
	}
	asan := runCmd(asanBin, v.env, args...)
	c.Count("evaluations", 1)
	if asan.killed || asan.err != nil {
		c.Inconclusive("the " + v.name + " build could not be run to completion (killed / not started)")
	} else {
		c.Count(v.name+"_runs", 1)
	}
	if cause, what := sanitizerVerdict(v, "obigrep", plain, asan); cause != "" {
		det["instrumented_stderr"] = tailBytes(asan.stderr, 3000)
		report(c, cause+tag, what, det)
	}
	c.Key("e2e/obigrep/%s/e%d/%s/%v/%v/sel%d", lenClass(n), k, constructs(model), indel, forwardOnly, min(len(expected)*4/nseq, 3))
	c.Sample(det)
}

// e2ePcr: obipcr (FindAllIndex on both primers, windows, recycled ApatSequence per batch).
func e2ePcr(c *core.Ctx, v *variant) {
	plainBin, asanBin, ok := binaries(c, v, "obipcr")
	if !ok {
		return
	}
	r := c.Rng
	opts := []gen.PatOpts{{}, {Ambig: 200}, {Ambig: 100, Class: 150, Oblig: 150}}[r.Intn(3)]
	fw := gen.PatternModel(r, 4+r.Intn(30), opts)
	rv := gen.PatternModel(r, 4+r.Intn(30), opts)
	k := r.Intn(4)
	nseq := c.Pick(60, 150)
	seqs := make([]e2eSeq, nseq)
	for i := range seqs {
		L := 1 + r.Intn(600)
		s := gen.DNA(r, L)
		if r.Intn(4) != 0 {
			// forward site, amplicon, reverse-complemented reverse site
			f := gen.Mismatched(r, fw, r.Intn(k+2), true)
			v := gen.Mismatched(r, rv.RevComp(), r.Intn(k+2), true)
			amp := gen.DNA(r, r.Intn(120))
			unit := append(append(append([]byte{}, f...), amp...), v...)
			if r.Intn(2) == 0 {
				unit = ref.RevComp(unit)
			}
			switch r.Intn(4) {
			case 0: // the sites touch both ends of the template
				s = unit
			case 1:
				s = append(unit, gen.DNA(r, r.Intn(80))...)
			case 2:
				s = append(gen.DNA(r, r.Intn(80)), unit...)
			default:
				s = append(append(gen.DNA(r, r.Intn(200)), unit...), gen.DNA(r, r.Intn(200))...)
			}
		}
		seqs[i] = e2eSeq{fmt.Sprintf("t%03d", i), s}
	}
	in := filepath.Join(c.Dir, fmt.Sprintf("pcr_%d_%d.fasta", c.Idx, v.uid))
	if err := writeFasta(in, seqs); err != nil {
		c.Inconclusive("cannot write input file")
		return
	}
	defer os.Remove(in)
	args := []string{"--no-progressbar", "--forward", fw.Text(true), "--reverse", rv.Text(true), "-e", fmt.Sprint(k), "-L", fmt.Sprint(50 + r.Intn(300))}
	if r.Intn(2) == 0 {
		args = append(args, "-l", fmt.Sprint(r.Intn(40)))
	}
	if r.Intn(3) == 0 {
		args = append(args, "--batch-size", fmt.Sprint(1+r.Intn(20)))
	}
	args = append(args, in)
	det := map[string]any{"command": "obipcr " + strings.Join(args[:len(args)-1], " "), "templates": nseq}
	plain := runCmd(plainBin, []string{"OBIMAXCPU=2"}, args...)
	c.Count("evaluations", 1)
	if plain.killed || plain.err != nil {
		c.Inconclusive("obipcr could not be run to completion (killed / not started)")
		return
	}
	if plain.exit != 0 {
		det["stderr"] = tailBytes(plain.stderr, 1500)
		report(c, fmt.Sprintf("e2e:obipcr:exit%d", plain.exit), "obipcr fails on a well-formed file and primers", det)
		return
	}
	asan := runCmd(asanBin, v.env, args...)
	c.Count("evaluations", 1)
	if asan.killed || asan.err != nil {
		c.Inconclusive("the " + v.name + " build could not be run to completion (killed / not started)")
	} else {
		c.Count(v.name+"_runs", 1)
	}
	if cause, what := sanitizerVerdict(v, "obipcr", plain, asan); cause != "" {
		det["instrumented_stderr"] = tailBytes(asan.stderr, 3000)
		report(c, cause, what, det)
	}
	amplicons, _ := parseFasta(plain.stdout)
	if len(amplicons) > 0 {
		c.Key("e2e/obipcr/%s/%s/e%d/%s", lenClass(len(fw)), lenClass(len(rv)), k, constructs(append(append(ref.PatModel{}, fw...), rv...)))
	}
	det["amplicons"] = len(amplicons)
	c.Sample(det)
}

// e2eAnnotate: obiannotate --pattern (BestMatch on both strands, indel re-alignment).
func e2eAnnotate(c *core.Ctx, v *variant) {
	plainBin, asanBin, ok := binaries(c, v, "obiannotate")
	if !ok {
		return
	}
	r := c.Rng
	indel := r.Intn(2) == 0
	n := 2 + r.Intn(38)
	k := r.Intn(5)
	var model ref.PatModel
	if indel {
		model = gen.PatternModel(r, n, pureOpts(c))
		k = 1 + r.Intn(min(4, n-1))
	} else {
		o := pickOpts(c)
		o.Neg = 0
		model = gen.PatternModel(r, n, o)
	}
	nseq := c.Pick(60, 150)
	seqs := make([]e2eSeq, nseq)
	for i := range seqs {
		// sequences longer than the pattern: the re-alignment of shorter ones crashes (recorded by the sub-checks indel/best)
		L := n + 1 + r.Intn(200)
		pm := model
		if r.Intn(2) == 0 {
			pm = model.RevComp()
		}
		s, _ := gen.PlantedSeq(r, pm, L, k, indel)
		seqs[i] = e2eSeq{fmt.Sprintf("a%03d", i), s}
	}
	in := filepath.Join(c.Dir, fmt.Sprintf("annot_%d_%d.fasta", c.Idx, v.uid))
	if err := writeFasta(in, seqs); err != nil {
		c.Inconclusive("cannot write input file")
		return
	}
	defer os.Remove(in)
	args := []string{"--no-progressbar", "--pattern", model.Text(r.Intn(2) == 0), "--pattern-error", fmt.Sprint(k)}
	if indel {
		args = append(args, "--allows-indels")
	}
	args = append(args, in)
	det := map[string]any{"command": "obiannotate " + strings.Join(args[:len(args)-1], " "), "sequences": nseq}
	plain := runCmd(plainBin, []string{"OBIMAXCPU=2"}, args...)
	c.Count("evaluations", 1)
	if plain.killed || plain.err != nil {
		c.Inconclusive("obiannotate could not be run to completion (killed / not started)")
		return
	}
	if plain.exit != 0 {
		det["stderr"] = tailBytes(plain.stderr, 1500)
		report(c, fmt.Sprintf("e2e:obiannotate:exit%d", plain.exit), "obiannotate --pattern fails on a well-formed file and pattern", det)
		return
	}
	asan := runCmd(asanBin, v.env, args...)
	c.Count("evaluations", 1)
	if asan.killed || asan.err != nil {
		c.Inconclusive("the " + v.name + " build could not be run to completion (killed / not started)")
	} else {
		c.Count(v.name+"_runs", 1)
	}
	if cause, what := sanitizerVerdict(v, "obiannotate", plain, asan); cause != "" {
		det["instrumented_stderr"] = tailBytes(asan.stderr, 3000)
		report(c, cause, what, det)
	}
	annotated := bytes.Count(plain.stdout, []byte(`"pattern_location"`)) + bytes.Count(plain.stdout, []byte(`pattern_location=`))
	if annotated > 0 {
		c.Key("e2e/obiannotate/%s/e%d/%s/%v", lenClass(n), k, constructs(model), indel)
	}
	det["annotated"] = annotated
	c.Sample(det)
}
