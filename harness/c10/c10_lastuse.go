package c10

import (
	"fmt"
	"runtime"
	"sync/atomic"

	"git.metabarcoding.org/obitools/obitools4/obitools4/pkg/obiapat"
	"git.metabarcoding.org/obitools/obitools4/obitools4/pkg/obiseq"

	"verifh/core"
	"verifh/gen"
)

// runLastUse: the C copy of a sequence is freed by a finalizer when the Go handle becomes
// unreachable. Each matcher entry point is called as the LAST use of its ApatSequence (the idiom
// `pattern.FindAllIndex(mustMake(seq), 0, -1)`) on sequences of 1-6 Mb while another goroutine
// forces garbage collections: the scan must run on live memory. What is observed: the hits are
// those found on a handle that is kept alive; a scan of freed memory kills the child process
// (attributed to this case) or changes the hits.
func runLastUse(c *core.Ctx) {
	r := c.Rng
	entry := []string{"FindAllIndex", "IsMatching", "AllMatches", "BestMatch", "FilterBestMatch"}[c.Idx%5]
	pat := "ttagataccccactatgc"
	budget := 1 + r.Intn(2)
	pattern, err := obiapat.MakeApatPattern(pat, budget, entry == "BestMatch" && r.Intn(2) == 0)
	if err != nil {
		c.Inconclusive("cannot build the pattern: " + err.Error())
		return
	}
	n := (1 + r.Intn(6)) << 20
	text := gen.DNA(r, n)
	nplant := r.Intn(4) // 0: the scan returns nothing
	for k := 0; k < nplant; k++ {
		copy(text[r.Intn(n-len(pat)):], pat)
	}
	mk := func() obiapat.ApatSequence {
		a, err := obiapat.MakeApatSequence(obiseq.NewBioSequence("s", append([]byte{}, text...), ""), false)
		if err != nil {
			panic(err)
		}
		return a
	}
	call := func(a obiapat.ApatSequence) string {
		switch entry {
		case "FindAllIndex":
			return fmt.Sprint(pattern.FindAllIndex(a, 0, -1))
		case "IsMatching":
			return fmt.Sprint(pattern.IsMatching(a, 0, -1))
		case "AllMatches":
			return fmt.Sprint(pattern.AllMatches(a, 0, -1))
		case "BestMatch":
			return fmt.Sprint(pattern.BestMatch(a, 0, -1))
		default:
			return fmt.Sprint(pattern.FilterBestMatch(a, 0, -1))
		}
	}
	kept := mk()
	want := call(kept)
	var stop atomic.Bool
	done := make(chan struct{})
	go func() {
		defer close(done)
		for !stop.Load() {
			runtime.GC()
		}
	}()
	c.Risk("last-use:" + entry)
	rounds := c.Pick(12, 40)
	bad := ""
	for i := 0; i < rounds && bad == ""; i++ {
		got := call(mk()) // the handle is unreachable as soon as the arguments are evaluated
		if got != want {
			bad = got
		}
		c.Count("evaluations", 1)
		c.Count("last_use_calls."+entry, 1)
	}
	stop.Store(true)
	<-done
	runtime.KeepAlive(kept)
	c.Key("lastuse/%s/%d/%d", entry, n>>20, nplant)
	if c.Idx < 5 {
		c.Sample(map[string]any{"entry_point": entry, "sequence_length": n, "planted_sites": nplant, "rounds": rounds, "hits": clipStr(want, 200)})
	}
	if bad != "" {
		c.Violate("last-use:"+entry, "a matcher called as the last use of its sequence handle returns other hits than on a handle kept alive", map[string]any{"entry_point": entry, "sequence_length": n, "want": clipStr(want, 400), "got": clipStr(bad, 400)})
	}
}

func clipStr(s string, n int) string {
	if len(s) > n {
		return s[:n] + "…"
	}
	return s
}
