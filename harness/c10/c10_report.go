package c10

import (
	"bufio"
	"os"
	"path/filepath"
	"strings"
	"sync"

	"verifh/core"
)

// The supervisor keeps at most 2000 violation records per run. Recorded genuine
// defects (KNOWN_FINDINGS.txt) are hit by a large share of the cases here (every
// short sequence in indel mode, every 64-symbol pattern ...); reporting each of
// them would crowd new violations out of that budget. A violation whose
// signature is a listed finding is therefore always counted (counter
// "known:<cause>") but reported only once per case and only by a fixed subset
// of the cases of a sub-check (reportsKnown). Unlisted violations are always reported. The list is only read.

var (
	knownOnce sync.Once
	knownSigs map[string]bool
)

func isKnown(sig string) bool {
	knownOnce.Do(func() {
		knownSigs = map[string]bool{}
		f, err := os.Open(filepath.Join(core.VerifDir, "KNOWN_FINDINGS.txt"))
		if err != nil {
			return
		}
		defer f.Close()
		sc := bufio.NewScanner(f)
		sc.Buffer(make([]byte, 1<<16), 1<<20)
		for sc.Scan() {
			fs := strings.Fields(sc.Text())
			if len(fs) >= 3 && fs[0] == "finding:" && fs[1] == "property=C10" && strings.HasPrefix(fs[2], "signature=") {
				knownSigs[strings.TrimPrefix(fs[2], "signature=")] = true
			}
		}
	})
	return knownSigs[sig]
}

// per-case bookkeeping (cases of a child run one after the other)
var (
	repMu      sync.Mutex
	repCase    string
	repSeen    map[string]bool
	repUnknown int
)

func caseState(c *core.Ctx) {
	id := c.Sub + "/" + itoa(c.Idx)
	if id != repCase {
		repCase = id
		repSeen = map[string]bool{}
		repUnknown = 0
	}
}

func itoa(i int) string {
	if i == 0 {
		return "0"
	}
	neg := i < 0
	if neg {
		i = -i
	}
	var b []byte
	for i > 0 {
		b = append([]byte{byte('0' + i%10)}, b...)
		i /= 10
	}
	if neg {
		return "-" + string(b)
	}
	return string(b)
}

// reportsKnown tells whether case c reports (and not only counts) listed findings:
// the first 16 cases of a sub-check and then one case out of 32 (quick) / 512 (thorough).
func reportsKnown(c *core.Ctx) bool {
	return c.Replay || c.Idx < 16 || c.Idx%c.Pick(32, 512) == 0
}

func report(c *core.Ctx, cause, what string, detail any) {
	repMu.Lock()
	defer repMu.Unlock()
	caseState(c)
	if isKnown(c.ID + ":" + c.Sub + ":" + cause) {
		c.Count("known:"+cause, 1)
		if repSeen[cause] || !reportsKnown(c) {
			return
		}
		repSeen[cause] = true
		c.Violate(cause, what, detail)
		return
	}
	repUnknown++
	c.Violate(cause, what, detail)
}

// unknownViolations is the number of unlisted violations reported for the case in flight.
func unknownViolations(c *core.Ctx) int {
	repMu.Lock()
	defer repMu.Unlock()
	caseState(c)
	return repUnknown
}
