package c10

import (
	"reflect"
	"sort"
	"strings"

	"git.metabarcoding.org/obitools/obitools4/obitools4/pkg/obiapat"
	"git.metabarcoding.org/obitools/obitools4/obitools4/pkg/obiseq"

	"verifh/core"
	"verifh/gen"
	"verifh/ref"
)

func sortHits(h []ref.Hit) []ref.Hit {
	r := append([]ref.Hit{}, h...)
	sort.Slice(r, func(i, j int) bool {
		if r[i].Start != r[j].Start {
			return r[i].Start < r[j].Start
		}
		return r[i].End < r[j].End
	})
	return r
}

func mirror(h []ref.Hit, n int) []ref.Hit {
	r := make([]ref.Hit, len(h))
	for i, x := range h {
		r[i] = ref.Hit{Start: n - x.End, End: n - x.Start, Err: x.Err}
	}
	return sortHits(r)
}

// rcOutcome runs, for one pattern model and one sequence, the three searches of
// the strand relation (mismatch mode, whole sequence).
type rcOutcome struct {
	rejected  bool // ReverseComplement returned an error
	rcText    string
	rcLen     int
	onS       []ref.Hit // ReverseComplement(P) on s
	mirrored  []ref.Hit // P on revcomp(s), mirrored
	oracle    []ref.Hit // reversed model on s, brute force
	compileEr string
}

func strandMismatch(model ref.PatModel, upper bool, k int, seq []byte) rcOutcome {
	var o rcOutcome
	t, err := compile(model, upper, k, false)
	if err != nil {
		o.compileEr = err.Error()
		return o
	}
	rc, err := t.ap.ReverseComplement()
	if err != nil {
		o.rejected = true
		return o
	}
	o.rcText = rc.String()
	o.rcLen = rc.Len()
	as, err := apatSeq(seq, nil)
	if err != nil {
		o.compileEr = err.Error()
		return o
	}
	rs := ref.RevComp(seq)
	ars, err := apatSeq(rs, nil)
	if err != nil {
		o.compileEr = err.Error()
		return o
	}
	o.onS = sortHits(toHits(rc.FindAllIndex(as, 0, -1)))
	o.mirrored = mirror(toHits(t.ap.FindAllIndex(ars, 0, -1)), len(seq))
	o.oracle = sortHits(model.RevComp().MismatchHits(seq, k, 0, len(seq)))
	return o
}

func sameHits(a, b []ref.Hit) bool {
	if len(a) == 0 && len(b) == 0 {
		return true
	}
	return reflect.DeepEqual(a, b)
}

// posKind names the constructs of one pattern position, e.g. "!x#", "[]#".
func posKind(p ref.PatPos) string {
	s := "x"
	if p.Class {
		s = "[]"
	}
	if p.Neg {
		s = "!" + s
	}
	if p.Oblig {
		s += "#"
	}
	return s
}

// rcProbeWrong tells whether the reverse complement of the (short) pattern m
// misbehaves: different number of positions, or hits different from the reversed
// model on some sequence over acgt of length <= len(m)+2, budgets 0 and 1.
func rcProbeWrong(m ref.PatModel) bool {
	for k := 0; k <= 1; k++ {
		t, err := compile(m, true, k, false)
		if err != nil {
			return false
		}
		rc, err := t.ap.ReverseComplement()
		if err != nil {
			return false // refused, not wrong
		}
		if rc.Len() != len(m) {
			return true
		}
		rm := m.RevComp()
		n := gen.CountStrings(len(m) + 2)
		for i := 0; i < n; i++ {
			seq := gen.NthString(i)
			as, err := apatSeq(seq, nil)
			if err != nil {
				continue
			}
			got := sortHits(toHits(rc.FindAllIndex(as, 0, -1)))
			if !sameHits(got, sortHits(rm.MismatchHits(seq, k, 0, len(seq)))) {
				return true
			}
		}
	}
	return false
}

// placed puts position p alone, first, inside or last among plain bases.
func placed(p ref.PatPos, where string) ref.PatModel {
	c, g := ref.PatPos{Letters: "c"}, ref.PatPos{Letters: "g"}
	switch where {
	case "only":
		return ref.PatModel{p}
	case "first":
		return ref.PatModel{p, c, g}
	case "last":
		return ref.PatModel{c, g, p}
	}
	return ref.PatModel{c, p, g}
}

// rcCauses names the constructs of a pattern whose reverse complement is wrong
// by themselves: every construct kind of the pattern ("!x#", "![]#", ...) is
// probed alone at the four placements; a kind that fails where the pattern uses
// it is reported as kind@placements-where-it-fails ("@any" = all four).
func rcCauses(model ref.PatModel) []string {
	found := map[string]bool{}
	probed := map[string]bool{}
	for i, p := range model {
		kd := posKind(p)
		if kd == "x" {
			continue
		}
		where := "inner"
		switch {
		case len(model) == 1:
			where = "only"
		case i == 0:
			where = "first"
		case i == len(model)-1:
			where = "last"
		}
		if probed[kd+"@"+where] {
			continue
		}
		probed[kd+"@"+where] = true
		if !rcProbeWrong(placed(p, where)) {
			continue
		}
		var bad []string
		for _, w := range []string{"first", "inner", "last", "only"} {
			if rcProbeWrong(placed(p, w)) {
				bad = append(bad, w)
			}
		}
		at := strings.Join(bad, "+")
		if len(bad) == 4 {
			at = "any"
		}
		found[kd+"@"+at] = true
	}
	var l []string
	for x := range found {
		l = append(l, x)
	}
	sort.Strings(l)
	return l
}

// rcAble: constructs whose reverse complement the API accepts are all of them
// except the negated class (ReverseComplement returns an error for "![..]").
func runStrand(c *core.Ctx) {
	r := c.Rng
	n := pickPatLen(c)
	if n == maxPatLen {
		n = 1 + r.Intn(63) // the maximal length is the business of the mismatch sub-check
	}
	indel := c.Idx%4 == 3
	model := gen.PatternModel(r, n, pickOpts(c))
	k := r.Intn(5)
	if indel {
		if n < 2 {
			n = 2 + r.Intn(8)
			model = gen.PatternModel(r, n, pickOpts(c))
		}
		k = 1 + r.Intn(min(4, n-1))
		for i := range model {
			model[i].Oblig = false
		}
	}
	upper := r.Intn(2) == 0
	c.Risk("strand:compile:" + lenClass(n))
	t, err := compile(model, upper, k, indel)
	if err != nil {
		report(c, "pattern-rejected:"+constructs(model), "a pattern of the documented grammar is rejected by MakeApatPattern",
			map[string]any{"pattern": model.Text(false), "errormax": k, "error": err.Error()})
		return
	}
	c.Risk("strand:ReverseComplement:" + constructs(model))
	rc, err := t.ap.ReverseComplement()
	if err != nil {
		// the API does not accept the pattern for this operation: nothing to compare
		c.Count("rc_rejected", 1)
		c.Count("evaluations", 1)
		return
	}
	rcModel := model.RevComp()
	// the sequence predicate used by obigrep (pkg/obiapat/predicat.go): pattern on either strand
	c.Risk("strand:IsPatternMatchSequence:" + constructs(model))
	predBoth := obiapat.IsPatternMatchSequence(t.text, k, true, indel)
	predFwd := obiapat.IsPatternMatchSequence(t.text, k, false, indel)
	within := func(m ref.PatModel, s []byte) bool {
		if indel {
			d := m.EndDistances(s)
			for e := 1; e < len(d); e++ {
				if d[e] <= k {
					return true
				}
			}
			return false
		}
		return len(m.MismatchHits(s, k, 0, len(s))) > 0
	}
	c.Risk("strand:search:" + t.mode() + ":" + constructs(model))
	for q := 0; q < 6; q++ {
		L := pickSeqLen(c, n)
		// plant occurrences of the reverse-complemented pattern (so that it has something to find)
		seq, plants := gen.PlantedSeq(r, rcModel, L, k, indel)
		det := map[string]any{"pattern": t.text, "errormax": k, "indel": indel, "sequence": string(seq), "rc_pattern": rc.String()}
		rcBad := false
		if !indel {
			o := strandMismatch(model, upper, k, seq)
			c.Count("evaluations", 2)
			det["rc_on_s"] = o.onS
			det["p_on_revcomp_s_mirrored"] = o.mirrored
			det["oracle_reversed_model_on_s"] = o.oracle
			switch {
			case o.rcLen != len(model) || !sameHits(o.onS, o.oracle):
				det["rc_len"] = o.rcLen
				causes := rcCauses(model)
				if len(causes) == 0 {
					causes = []string{"combination:" + constructs(model)}
				}
				det["constructs_wrong_by_themselves"] = causes
				for _, f := range causes {
					report(c, "rc-pattern:"+f, "the reverse-complemented pattern does not match what the reversed pattern model matches", det)
				}
				rcBad = true
			case !sameHits(o.onS, o.mirrored):
				report(c, "mirror", "ReverseComplement(P) on s and P on revcomp(s) differ after mirroring the coordinates", det)
				rcBad = true
			}
			if len(o.oracle) > 0 || len(plants) > 0 {
				c.Key("strand/mismatch/%s/e%d/%s/L%s/hits%d/%s", lenClass(n), k, constructs(model), lenClass(len(seq)), min(len(o.oracle), 3), plantKinds(plants))
			}
		} else {
			// indel mode: raw hits are end positions, which mirror into start positions;
			// what both strands must share is the existence of a hit and the smallest error count
			as, e1 := apatSeq(seq, nil)
			ars, e2 := apatSeq(ref.RevComp(seq), nil)
			if e1 != nil || e2 != nil {
				continue
			}
			a := toHits(rc.FindAllIndex(as, 0, -1))
			b := toHits(t.ap.FindAllIndex(ars, 0, -1))
			c.Count("evaluations", 2)
			minOf := func(h []ref.Hit) int {
				m := -1
				for _, x := range h {
					if m < 0 || x.Err < m {
						m = x.Err
					}
				}
				return m
			}
			want := rcModel.MinSubstringDistance(seq)
			if want > k {
				want = -1
			}
			det["rc_on_s"] = a
			det["p_on_revcomp_s"] = b
			det["min_substring_distance"] = want
			if minOf(a) != want {
				report(c, "rc-pattern:indel:"+constructs(model), "indel mode: best error count of the reverse-complemented pattern differs from the reference", det)
				rcBad = true
			} else if minOf(b) != want {
				report(c, "mirror:indel", "indel mode: best error count of P on revcomp(s) differs from the reference", det)
			}
			if want >= 0 || len(plants) > 0 {
				c.Key("strand/indel/%s/e%d/%s/L%s/%d/%s", lenClass(n), k, constructs(model), lenClass(len(seq)), want, plantKinds(plants))
			}
		}
		if !rcBad {
			fw, rv := within(model, seq), within(rcModel, seq)
			gotB := predBoth(obiseq.NewBioSequence("s", append([]byte{}, seq...), ""))
			gotF := predFwd(obiseq.NewBioSequence("s", append([]byte{}, seq...), ""))
			c.Count("evaluations", 2)
			if gotB != (fw || rv) || gotF != fw {
				det["predicate_both_strands"] = gotB
				det["predicate_forward_only"] = gotF
				det["reference_forward"] = fw
				det["reference_reverse"] = rv
				which := "both-strands"
				if gotF != fw {
					which = "forward-only"
				}
				report(c, "predicate:"+which+":"+t.mode(), "IsPatternMatchSequence disagrees with the reference on the two strands", det)
			}
		}
		if q == 0 {
			c.Sample(det)
		}
		if unknownViolations(c) > 3 {
			break
		}
	}
}
