package c07

import (
	"fmt"
	"strings"

	"git.metabarcoding.org/obitools/obitools4/obitools4/pkg/obiapat"
	"git.metabarcoding.org/obitools/obitools4/obitools4/pkg/obikmer"
	"git.metabarcoding.org/obitools/obitools4/obitools4/pkg/obiseq"

	"verifh/core"
	"verifh/gen"
	"verifh/ref"
)

// the IUPAC nucleotide symbols on which the three tables are compared ('u' is
// read as 't' by all of them; it is not part of the involution law)
const iupacSymbols = "acgturyswkmbdhvn"

// seqComplement asks the obiseq table through a one-symbol sequence.
func seqComplement(sym byte, inplace bool) string {
	s := obiseq.NewBioSequence("s", []byte{sym}, "")
	return s.ReverseComplement(inplace).String()
}

// apatComplement asks the C table through a one-symbol pattern.
func apatComplement(sym byte) (string, error) {
	p, err := obiapat.MakeApatPattern(string(sym), 0, false)
	if err != nil {
		return "", err
	}
	defer p.Free()
	cp, err := p.ReverseComplement()
	if err != nil {
		return "", err
	}
	defer cp.Free()
	return cp.String(), nil
}

func runTables(c *core.Ctx) {
	rep := newReporter(c)
	evals := 0
	if c.Idx == 0 {
		kmer := obikmer.VerifRevcompNuc()
		for i := 0; i < len(iupacSymbols); i++ {
			for _, up := range []bool{false, true} {
				sym := iupacSymbols[i]
				in := sym
				if up {
					in = sym - 32
				}
				want := string(ref.Complement(sym))
				// obiseq, both forms
				for _, inplace := range []bool{false, true} {
					got := strings.ToLower(seqComplement(in, inplace))
					evals++
					if got != want {
						rep.violate(fmt.Sprintf("table:obiseq:%c", sym), "the obiseq complement of a symbol differs from the IUPAC complement",
							map[string]any{"symbol": string(in), "got": got, "want": want})
					}
				}
				// obiapat (C table)
				c.Risk("obiapat-pattern")
				got, err := apatComplement(in)
				evals++
				if err != nil {
					rep.violate(fmt.Sprintf("table:obiapat-error:%c", sym), "the one-symbol pattern cannot be built or complemented", map[string]any{"symbol": string(in), "error": err.Error()})
				} else if strings.ToLower(got) != want {
					rep.violate(fmt.Sprintf("table:obiapat:%c", sym), "the obiapat complement of a symbol differs from the IUPAC complement",
						map[string]any{"symbol": string(in), "got": got, "want": want})
				}
				// obikmer (lower case only: the table is indexed by lower-case symbols)
				if !up {
					evals++
					k, ok := kmer[sym]
					if !ok || string(k) != want {
						rep.violate(fmt.Sprintf("table:obikmer:%c", sym), "the obikmer complement of a symbol differs from the IUPAC complement",
							map[string]any{"symbol": string(sym), "got": string(k), "present": ok, "want": want})
					}
					// the three tables agree with each other
					sq := strings.ToLower(seqComplement(sym, false))
					if err == nil && ok && !(sq == strings.ToLower(got) && sq == string(k)) {
						rep.violate(fmt.Sprintf("tables-disagree:%c", sym), "the three complement tables disagree on a symbol",
							map[string]any{"symbol": string(sym), "obiseq": sq, "obiapat": got, "obikmer": string(k)})
					}
				}
				c.Key("sym/%c", in)
			}
		}
		// the remaining symbols of the sequence alphabet: obiseq only (involution included)
		for _, sym := range []byte(".-[]") {
			want := string(ref.Complement(sym))
			got := seqComplement(sym, false)
			evals++
			if got != want {
				rep.violate(fmt.Sprintf("table:obiseq:%c", sym), "the obiseq complement of a symbol differs from the documented one",
					map[string]any{"symbol": string(sym), "got": got, "want": want})
			}
			c.Key("sym/%c", sym)
		}
		// involution of the table on the DNA alphabet
		for _, sym := range []byte(ref.DNAAlphabet) {
			s := obiseq.NewBioSequence("s", []byte{sym}, "")
			s.ReverseComplement(true)
			s.ReverseComplement(true)
			evals++
			if s.String() != string(sym) {
				rep.violate(fmt.Sprintf("rc-involution:symbol:%c", sym), "complementing a symbol twice does not restore it", map[string]any{"symbol": string(sym), "got": s.String()})
			}
		}
		c.Sample(map[string]any{"symbols": iupacSymbols + " (both cases) in obiseq, obiapat, obikmer; .-[] in obiseq"})
		c.Count("evaluations", evals)
		return
	}
	// random IUPAC patterns / sequences: obiapat's reverse complement of a pattern
	// and obiseq's reverse complement of the same text agree with the reference
	per := c.Pick(40, 200)
	for k := 0; k < per; k++ {
		n := 1 + c.Rng.Intn(63)
		pat := gen.DNAFull(c.Rng, n, 1)
		if c.Rng.Intn(3) == 0 {
			pat = gen.Upper(c.Rng, pat, 500)
		}
		want := string(ref.RevComp(pat))
		c.Risk("obiapat-pattern")
		p, err := obiapat.MakeApatPattern(string(pat), 0, false)
		if err != nil {
			rep.violate("table:obiapat-error:pattern", "an IUPAC pattern of at most 63 symbols cannot be built", map[string]any{"pattern": string(pat), "error": err.Error()})
			continue
		}
		cp, err := p.ReverseComplement()
		if err != nil {
			rep.violate("table:obiapat-error:pattern", "an IUPAC pattern cannot be complemented", map[string]any{"pattern": string(pat), "error": err.Error()})
			p.Free()
			continue
		}
		got := strings.ToLower(cp.String())
		sq := obiseq.NewBioSequence("s", append([]byte{}, pat...), "").ReverseComplement(true).String()
		evals += 2
		if got != want {
			rep.violate("table:obiapat:pattern", "the reverse complement of a pattern differs from the reference", map[string]any{"pattern": string(pat), "got": got, "want": want})
		}
		if sq != want {
			rep.violate("table:obiseq:sequence", "the reverse complement of a sequence differs from the reference", map[string]any{"sequence": string(pat), "got": sq, "want": want})
		}
		cp.Free()
		p.Free()
		c.Key("pat/%d/%d", n, n%2)
		if k == 0 {
			c.Sample(map[string]any{"pattern": string(pat), "reverse_complement": want})
		}
	}
	c.Count("evaluations", evals)
}
