package c07

import (
	"bytes"
	"fmt"
	"math/rand"
	"sync"
	"sync/atomic"

	"git.metabarcoding.org/obitools/obitools4/obitools4/pkg/obiseq"

	"verifh/core"
	"verifh/gen"
	"verifh/ref"
)

// runConcurrent: every worker goroutine of a command creates, copies, reverse-complements, cuts and
// recycles its own records while the others do the same; the byte buffers come from process-wide
// pools. Each goroutine keeps a private model (nucleotides, qualities) of the records it holds: a
// record whose content changes although its owner did not touch it received a buffer that another
// goroutine still uses (or was handed the same buffer twice).
func runConcurrent(c *core.Ctx) {
	workers := []int{2, 4, 8, 16}[c.Idx%4]
	steps := c.Pick(1500, 5000)
	type held struct {
		s         *obiseq.BioSequence
		nuc, qual []byte
		origin    string
	}
	type bad struct {
		cause string
		det   map[string]any
	}
	found := make(chan bad, workers)
	var evals atomic.Int64
	seeds := make([]int64, workers)
	for i := range seeds {
		seeds[i] = c.Rng.Int63()
	}
	var wg sync.WaitGroup
	for w := 0; w < workers; w++ {
		wg.Add(1)
		go func(w int) {
			defer wg.Done()
			r := rand.New(rand.NewSource(seeds[w]))
			var live []*held
			report := func(cause string, h *held, op string) {
				select {
				case found <- bad{cause, map[string]any{"goroutine": w, "goroutines": workers, "after_operation": op, "record_origin": h.origin,
					"expected_nuc": string(h.nuc), "got_nuc": string(h.s.Sequence()), "expected_qual": fmt.Sprint(h.qual), "got_qual": fmt.Sprint([]byte(h.s.Qualities()))}}:
				default:
				}
			}
			verify := func(op string) bool {
				for _, h := range live {
					evals.Add(1)
					if !bytes.Equal(h.s.Sequence(), h.nuc) {
						report("concurrent:nucleotides-changed", h, op)
						return false
					}
					if len(h.qual) > 0 && !bytes.Equal(h.s.Qualities(), h.qual) {
						report("concurrent:qualities-changed", h, op)
						return false
					}
				}
				return true
			}
			defer func() {
				if x := recover(); x != nil {
					select {
					case found <- bad{"concurrent:panic", map[string]any{"goroutine": w, "panic": fmt.Sprint(x)}}:
					default:
					}
				}
			}()
			for st := 0; st < steps; st++ {
				op := "new"
				k := r.Intn(10)
				if len(live) == 0 || (k < 2 && len(live) < 24) {
					n := 1 + r.Intn(300)
					nuc := ref.LowerBytes(gen.DNAFull(r, n, r.Intn(3)))
					s := obiseq.NewBioSequence(fmt.Sprintf("w%d_%d", w, st), append([]byte{}, nuc...), "")
					h := &held{s: s, nuc: nuc, origin: "new"}
					if r.Intn(2) == 0 {
						h.qual = gen.Quals(r, n)
						s.SetQualities(append([]byte{}, h.qual...))
					}
					live = append(live, h)
				} else {
					i := r.Intn(len(live))
					a := live[i]
					switch {
					case k < 4:
						op = "Copy"
						live = append(live, &held{s: a.s.Copy(), nuc: a.nuc, qual: a.qual, origin: op})
					case k < 6:
						op = "ReverseComplement(false)"
						h := &held{s: a.s.ReverseComplement(false), nuc: ref.RevComp(a.nuc), origin: op}
						if len(a.qual) > 0 {
							h.qual = ref.Reverse(a.qual)
						}
						live = append(live, h)
					case k == 6:
						op = "ReverseComplement(true)"
						a.s.ReverseComplement(true)
						a.nuc = ref.RevComp(a.nuc)
						if len(a.qual) > 0 {
							a.qual = ref.Reverse(a.qual)
						}
					case k == 7 && len(a.nuc) >= 2:
						op = "Subsequence"
						from := r.Intn(len(a.nuc) - 1)
						to := from + 1 + r.Intn(len(a.nuc)-from)
						sub, err := a.s.Subsequence(from, to, false)
						if err != nil {
							break
						}
						h := &held{s: sub, nuc: append([]byte{}, a.nuc[from:to]...), origin: op}
						if len(a.qual) > 0 {
							h.qual = append([]byte{}, a.qual[from:to]...)
						}
						live = append(live, h)
					default:
						op = "Recycle"
						a.s.Recycle()
						live[i] = live[len(live)-1]
						live = live[:len(live)-1]
					}
				}
				if len(live) > 32 {
					live[0].s.Recycle()
					live = live[1:]
				}
				if !verify(op) {
					return
				}
			}
		}(w)
	}
	wg.Wait()
	close(found)
	c.Count("evaluations", int(evals.Load()))
	c.Count("concurrent_evaluations", int(evals.Load()))
	c.Key("concurrent/%d", workers)
	if c.Idx < 2 {
		c.Sample(map[string]any{"goroutines": workers, "operations_per_goroutine": steps})
	}
	seen := map[string]bool{}
	for b := range found {
		if !seen[b.cause] {
			seen[b.cause] = true
			c.Violate(b.cause, "a record held by one goroutine changed (or the library panicked) while other goroutines created, copied and recycled their own records", b.det)
		}
	}
}
