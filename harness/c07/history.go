package c07

// History monitor: a population of real sequences and a harness-owned model of
// each of them; random operations are applied to both; after every step every
// live object is compared with its model, and the backing arrays / annotation
// containers of all live objects are checked for overlap.

import (
	"bytes"
	"fmt"
	"reflect"
	"runtime"
	"sort"
	"unsafe"

	"git.metabarcoding.org/obitools/obitools4/obitools4/pkg/obiseq"

	"verifh/core"
	"verifh/gen"
	"verifh/ref"
)

const (
	stLive = iota
	stDead
	stQuarantined
	stDropped
)

var bufField = [3]string{fNuc, fQual, fFeat}

type entity struct {
	id     int
	obj    *obiseq.BioSequence
	sh     *shadow
	origin string
	parent int
	state  int
	bufPtr [3]uintptr
	bufCap [3]int
	writer [3]string
	born   [3]int
	// last step / operation that legitimately wrote the object
	touched   int
	touchedBy string
	lastOp    string
	children  int
	// the paired read the reference model expects (PairTo / UnPair are mirrored pointer for pointer)
	mate *entity
	// inherited: a derived object that came out already linked to a mate although the model gives it
	// none. The link itself is not judged; what is done through it is (UnPair, MateWrite).
	inherited bool
}

type harnessBuf struct {
	p    *[]byte
	born int
}

type hist struct {
	c       *core.Ctx
	rep     *reporter
	ents    []*entity
	live    []*entity
	byPtr   map[*obiseq.BioSequence]*entity
	step    int
	evals   int
	trail   []string
	first   []string
	owned   []harnessBuf
	ownedA  []*obiseq.Annotation
	freed   map[uintptr][]byte // arrays given back to the pool (kept referenced: their addresses cannot be reused by the allocator)
	stop    bool
	opName  string
	maxLen  int
	nDiverg int
	// audit: after every step the slice pool is inspected through GetSlice (see audit)
	auditOn     bool
	confiscated [][]byte
}

func (h *hist) note(format string, a ...any) {
	s := fmt.Sprintf("%d: ", h.step) + fmt.Sprintf(format, a...)
	if len(h.first) < 15 {
		h.first = append(h.first, s)
	}
	h.trail = append(h.trail, s)
	if len(h.trail) > 40 {
		h.trail = h.trail[len(h.trail)-40:]
	}
}

func (h *hist) detail(extra map[string]any) map[string]any {
	d := map[string]any{"step": h.step, "operation": h.opName, "last_operations": append([]string{}, h.trail...)}
	for k, v := range extra {
		d[k] = v
	}
	return d
}

func (h *hist) add(o *obiseq.BioSequence, s *shadow, origin string, parent *entity) *entity {
	e := &entity{id: len(h.ents), obj: o, sh: s, origin: origin, parent: -1, touched: h.step, touchedBy: origin, lastOp: origin}
	if parent != nil {
		e.parent = parent.id
		parent.children++
	}
	h.ents = append(h.ents, e)
	h.live = append(h.live, e)
	h.byPtr[o] = e
	if parent != nil && o.PairedWith() != nil {
		e.inherited = true
	}
	return e
}

func (h *hist) unlive(e *entity, state int) {
	e.state = state
	for i, x := range h.live {
		if x == e {
			h.live = append(h.live[:i], h.live[i+1:]...)
			break
		}
	}
}

func (h *hist) touch(e *entity, op string) {
	e.touched = h.step
	e.touchedBy = op
	e.lastOp = op
}

func base(b []byte) (uintptr, int) {
	if cap(b) == 0 {
		return 0, 0
	}
	return uintptr(unsafe.Pointer(unsafe.SliceData(b[:cap(b)]))), cap(b)
}

// track records, for every live object, which primitive last gave it each of its backing arrays.
func (h *hist) track(op string) {
	for _, e := range h.live {
		s, q, f := e.obj.VerifBuffers()
		for i, b := range [3][]byte{s, q, f} {
			p, c := base(b)
			if p != e.bufPtr[i] || c != e.bufCap[i] {
				e.bufPtr[i], e.bufCap[i] = p, c
				e.writer[i] = op
				e.born[i] = h.step
				if _, was := h.freed[p]; p != 0 && was {
					delete(h.freed, p)
					h.c.Count("recycled_buffers_reused", 1)
				}
			}
		}
	}
}

type span struct {
	lo, hi uintptr
	e      *entity // nil: a buffer owned by the harness
	field  int
	born   int
}

// overlaps reports every pair of live backing arrays that share memory.
func (h *hist) overlaps() {
	var sp []span
	for _, e := range h.live {
		for i := 0; i < 3; i++ {
			if e.bufCap[i] > 0 {
				sp = append(sp, span{e.bufPtr[i], e.bufPtr[i] + uintptr(e.bufCap[i]), e, i, e.born[i]})
			}
		}
	}
	for _, hb := range h.owned {
		if p, c := base(*hb.p); c > 0 {
			sp = append(sp, span{p, p + uintptr(c), nil, 0, hb.born})
		}
	}
	sort.Slice(sp, func(i, j int) bool { return sp[i].lo < sp[j].lo })
	h.evals++
	var quarantine []*entity
	for i := 1; i < len(sp); i++ {
		a, b := sp[i-1], sp[i]
		if b.lo >= a.hi {
			continue
		}
		// victim = the holder that had the array first
		v, w := a, b
		if b.born < a.born || (a.e == nil && b.e != nil && b.born == a.born) {
			v, w = b, a
		}
		if v.e == nil {
			// both harness-owned, or the harness had it first: the pool handed out an array the harness still owns
			if w.e == nil {
				h.rep.violate("alias:harness-buffer@GetSlice", "the pool handed out twice a slice that was not recycled", h.detail(nil))
				continue
			}
			h.rep.violate("alias:harness-buffer@GetSlice", "a sequence received a backing array that a caller of GetSlice still owns",
				h.detail(map[string]any{"object": w.e.id, "field": bufField[w.field]}))
			quarantine = append(quarantine, w.e)
			continue
		}
		cause := fmt.Sprintf("alias:%s@%s", bufField[v.field], v.e.writer[v.field])
		det := map[string]any{
			"first_holder":        fmt.Sprintf("object %d (%s) field %s, backing array given by %s at step %d", v.e.id, v.e.origin, bufField[v.field], v.e.writer[v.field], v.e.born[v.field]),
			"first_holder_model":  v.e.sh.describe(),
			"first_holder_actual": describe(v.e.obj),
		}
		if w.e != nil {
			det["second_holder"] = fmt.Sprintf("object %d (%s) field %s, backing array given by %s at step %d", w.e.id, w.e.origin, bufField[w.field], w.e.writer[w.field], w.e.born[w.field])
			quarantine = append(quarantine, w.e)
		} else {
			det["second_holder"] = "slice returned by GetSlice to the harness"
		}
		h.rep.violate(cause, "two live holders share one backing array (modifying one changes the other)", h.detail(det))
		quarantine = append(quarantine, v.e)
	}
	for _, e := range quarantine {
		if e.state == stLive {
			h.unlive(e, stQuarantined)
		}
	}
}

func allBytes(b []byte, v byte) bool {
	for _, x := range b {
		if x != v {
			return false
		}
	}
	return true
}

// holder returns the live holder (object field or harness slice) of memory overlapping [p, p+c).
func (h *hist) holder(p uintptr, c int) (e *entity, field int, harness bool) {
	lo, hi := p, p+uintptr(c)
	for _, x := range h.live {
		for i := 0; i < 3; i++ {
			if x.bufCap[i] > 0 && x.bufPtr[i] < hi && lo < x.bufPtr[i]+uintptr(x.bufCap[i]) {
				return x, i, false
			}
		}
	}
	for _, hb := range h.owned {
		if q, qc := base(*hb.p); qc > 0 && q < hi && lo < q+uintptr(qc) {
			return nil, 0, true
		}
	}
	return nil, 0, false
}

// audit inspects the slice pool with the public API only: it takes slices with
// GetSlice(0) until the pool answers with a brand-new one, and gives back (in
// an order that restores the hand-out order) those that are legitimately
// pooled, i.e. entirely poisoned by RecycleSlice. A slice that overlaps a
// backing array still held by a live object is a violation found at its origin
// (the pool would have handed a live array to the next allocation); the
// harness keeps that slice, never writes to it and never recycles it, so the
// history goes on without the consequences.
func (h *hist) audit() {
	var legit []*[]byte
	junk := 0
	h.evals++
	for i := 0; i < 4096; i++ {
		s := obiseq.GetSlice(0)
		if cap(s) == 0 {
			// a pooled pointer to a nil slice (a field set to nil after RecycleSlice)
			junk++
			h.c.Count("pool_entries_nil", 1)
			if junk > 1024 {
				break
			}
			continue
		}
		p, c := base(s)
		full := s[:cap(s)]
		if e, f, harness := h.holder(p, c); e != nil || harness {
			if e != nil {
				cause := fmt.Sprintf("alias:%s@%s", bufField[f], e.writer[f])
				h.rep.violate(cause, "the slice pool hands out the backing array that a live sequence still uses (the next allocation would share it)",
					h.detail(map[string]any{"holder": fmt.Sprintf("object %d (%s) field %s, backing array given by %s at step %d", e.id, e.origin, bufField[f], e.writer[f], e.born[f]),
						"holder_model": e.sh.describe(), "returned_by_GetSlice": fmt.Sprintf("len %d cap %d", len(s), cap(s))}))
			} else {
				h.rep.violate("alias:harness-buffer@GetSlice", "the slice pool hands out a slice that a caller of GetSlice still owns", h.detail(nil))
			}
			h.confiscated = append(h.confiscated, s)
			continue
		}
		if allBytes(full, 0xDB) {
			q := new([]byte)
			*q = s
			legit = append(legit, q)
			h.c.Count("pool_entries_recycled", 1)
			continue
		}
		if len(s) == 0 && allBytes(full, 0) {
			break // made by the pool's New: the pool is empty
		}
		// the array of an object the history no longer follows (dropped, quarantined)
		h.c.Count("pool_entries_unfollowed", 1)
		h.confiscated = append(h.confiscated, s)
	}
	// give the legitimate entries back: first taken first, then the others in reverse order
	if len(legit) > 0 {
		obiseq.RecycleSlice(legit[0])
		for i := len(legit) - 1; i >= 1; i-- {
			obiseq.RecycleSlice(legit[i])
		}
	}
}

// containers walks the annotation containers of a value.
func containers(v any, f func(p uintptr)) {
	switch x := v.(type) {
	case map[string]any:
		if x != nil {
			f(reflect.ValueOf(x).Pointer())
		}
		for _, e := range x {
			containers(e, f)
		}
	case []any:
		if cap(x) > 0 {
			f(reflect.ValueOf(x).Pointer())
		}
		for _, e := range x {
			containers(e, f)
		}
	case map[string]int, map[string]string:
		rv := reflect.ValueOf(x)
		if !rv.IsNil() {
			f(rv.Pointer())
		}
	case []int:
		if cap(x) > 0 {
			f(reflect.ValueOf(x).Pointer())
		}
	case []string:
		if cap(x) > 0 {
			f(reflect.ValueOf(x).Pointer())
		}
	}
}

// sharedAnnotations reports annotation containers reachable from two live objects.
func (h *hist) sharedAnnotations() {
	owner := map[uintptr]*entity{}
	var quarantine []*entity
	h.evals++
	for _, e := range h.live {
		ann := obsAnn(e.obj)
		if ann == nil {
			continue
		}
		containers(map[string]any(ann), func(p uintptr) {
			if o, ok := owner[p]; ok && o != e {
				h.rep.violate("alias:annotations:"+h.opName, "an annotation container is reachable from two live sequences",
					h.detail(map[string]any{"objects": []int{o.id, e.id}, "origins": []string{o.origin, e.origin}}))
				quarantine = append(quarantine, o, e)
				return
			}
			owner[p] = e
		})
	}
	for _, a := range h.ownedA {
		if *a == nil {
			continue
		}
		p := reflect.ValueOf(map[string]any(*a)).Pointer()
		if o, ok := owner[p]; ok {
			h.rep.violate("alias:annotations:pool", "the annotation pool handed out the map of a live sequence", h.detail(map[string]any{"object": o.id}))
			quarantine = append(quarantine, o)
		}
	}
	for _, e := range quarantine {
		if e.state == stLive {
			h.unlive(e, stQuarantined)
		}
	}
}

func poisoned(b []byte) bool { return bytes.IndexByte(b, 0xDB) >= 0 }

// compare checks every live object against its model.
func (h *hist) compare() {
	var quarantine []*entity
	for _, e := range h.live {
		h.evals++
		d := diff(e.obj, e.sh, true)
		var want *obiseq.BioSequence
		if e.mate != nil {
			want = e.mate.obj
		}
		if obs := e.obj.PairedWith(); obs != want && !(e.mate == nil && e.inherited) {
			d = append(d, fMate)
		}
		if len(d) == 0 {
			continue
		}
		h.nDiverg++
		det := h.detail(map[string]any{"object": e.id, "origin": e.origin, "fields": d, "observed": describe(e.obj), "expected": e.sh.describe()})
		if e.touched == h.step {
			// the object is the target or the result of this step: its new value is wrong
			for _, f := range d {
				h.rep.violate(valueCause(e.touchedBy, f), "the result of the operation differs from the reference", det)
			}
		} else {
			for _, f := range d {
				// an annotation container, or a backing array, is written through another holder
				cause := "alias:" + f + ":" + h.opName
				for i, bf := range bufField {
					if bf != f {
						continue
					}
					cause = fmt.Sprintf("alias:%s@%s", f, e.writer[i])
					s, q, ft := e.obj.VerifBuffers()
					if poisoned([3][]byte{s, q, ft}[i]) {
						cause = fmt.Sprintf("use-after-recycle:%s@%s", f, e.writer[i])
					}
				}
				h.rep.violate(cause, "an object changed although the operation did not concern it", det)
			}
		}
		quarantine = append(quarantine, e)
	}
	for _, e := range quarantine {
		if e.state == stLive {
			h.unlive(e, stQuarantined)
		}
	}
}

func valueCause(op, field string) string {
	switch op {
	case "Copy":
		return "copy-value:" + field
	case "RC", "RC-inplace":
		return "rc-value:" + field
	case "Sub":
		return "sub-value:" + field
	case "SubCirc":
		return "circular:" + field
	case "Join", "Join-inplace":
		return "join-value:" + field
	case "New":
		return "new-value:" + field
	}
	return "mutator-value:" + op + ":" + field
}

// after is called after every primitive (track only) and at the end of a step (full check).
func (h *hist) check() {
	if h.auditOn {
		h.audit()
	}
	h.overlaps()
	h.sharedAnnotations()
	h.compare()
}

func (h *hist) pick() *entity {
	if len(h.live) == 0 {
		return nil
	}
	return h.live[h.c.Rng.Intn(len(h.live))]
}

func (h *hist) pickLen() int {
	r := h.c.Rng
	switch r.Intn(10) {
	case 0:
		return 1 + r.Intn(3)
	case 1:
		return []int{299, 300, 301, 1023, 1024, 1025}[r.Intn(6)]
	case 2:
		return 1025 + r.Intn(200)
	case 3, 4:
		return 1 + r.Intn(h.maxLen)
	}
	return 4 + r.Intn(60)
}

func (h *hist) opNew() {
	r := h.c.Rng
	n := h.pickLen()
	s := &shadow{nuc: gen.DNAFull(r, n, r.Intn(4)), ann: gen.Annotations(r, 3)}
	if r.Intn(2) == 0 {
		s.qual = gen.Quals(r, n)
	}
	if r.Intn(3) == 0 {
		s.feat = gen.Feature(r)
	}
	def := ""
	delete(s.ann, "definition")
	if r.Intn(4) == 0 {
		def = fmt.Sprintf("definition %d", r.Intn(100))
		s.ann["definition"] = def
	}
	h.newWith(s, def)
}

func (h *hist) newWith(s *shadow, def string) *entity {
	h.note("New len=%d qual=%v feat=%d ann=%d -> #%d", len(s.nuc), s.hasQual(), len(s.feat), len(s.ann), len(h.ents))
	o := build(fmt.Sprintf("s%d", len(h.ents)), s, def)
	e := h.add(o, s, "New", nil)
	h.track("New")
	return e
}

func (h *hist) opCopy(a *entity) {
	h.note("Copy #%d -> #%d", a.id, len(h.ents))
	o := a.obj.Copy()
	h.add(o, a.sh.clone(), "Copy", a)
	h.track("Copy")
}

func (h *hist) opRC(a *entity, inplace bool) {
	op := "RC"
	if inplace {
		op = "RC-inplace"
	}
	cached := a.obj.VerifRevcomp()
	h.note("%s #%d (cached link: %v) -> #%d?", op, a.id, cached != nil, len(h.ents))
	want := a.sh.rc()
	old := a.sh
	r := a.obj.ReverseComplement(inplace)
	h.track(op)
	if r == nil {
		h.rep.violate("rc-nil", "ReverseComplement returned nil", h.detail(nil))
		return
	}
	fromCache := cached != nil && r == cached
	known := h.byPtr[r]
	switch {
	case r == a.obj:
		if !inplace {
			h.rep.violate("rc-returns-receiver", "ReverseComplement(false) returned its receiver", h.detail(nil))
			h.unlive(a, stQuarantined)
			return
		}
		a.sh = want
		h.touch(a, op)
	case fromCache || known != nil:
		// the operation answered with an existing object: it must show the reverse complement of the receiver
		h.c.Count("rc_answered_from_cache", 1)
		if known != nil && (known.state == stQuarantined || known.state == stDropped) {
			// the state of an object the history stopped following is unknown
			return
		}
		h.evals++
		d := diff(r, want, true)
		if len(d) > 0 {
			class := "modified"
			if known != nil && known.state == stDead {
				class = "recycled"
			}
			cause := "stale-cache:" + class
			if !fromCache {
				cause = "rc-returns-other-object"
			}
			det := h.detail(map[string]any{"receiver": a.id, "receiver_model": old.describe(), "returned": describe(r), "expected": want.describe(), "fields": d})
			if known != nil {
				det["returned_object"] = fmt.Sprintf("object %d (%s), state %d", known.id, known.origin, known.state)
			} else {
				det["returned_object"] = "object reachable only through the cached link (copy of a cached link)"
			}
			h.rep.violate(cause, "ReverseComplement returned a cached object that is not the reverse complement of its receiver", det)
		} else if known == nil {
			h.add(r, want, "RC", a)
		}
		if inplace {
			// the receiver was not returned: whether it was complemented is not constrained
			if len(diff(a.obj, old, true)) != 0 && len(diff(a.obj, want, true)) == 0 {
				a.sh = want
				h.touch(a, op)
			}
		}
		h.track(op)
	default:
		// a new object
		e := h.add(r, want, "RC", a)
		e.touchedBy = "RC"
		if inplace {
			h.rep.violate("rc-inplace-identity", "ReverseComplement(true) without cached link did not return its receiver", h.detail(nil))
		}
		h.track(op)
	}
}

func (h *hist) opSub(a *entity, circ bool) {
	r := h.c.Rng
	n := len(a.sh.nuc)
	if n == 0 {
		return // no window of an empty sequence belongs to the domain
	}
	var from, to int
	if !circ {
		from = r.Intn(n)
		to = from + 1 + r.Intn(n-from)
		switch r.Intn(6) {
		case 0:
			from = 0
		case 1:
			to = n
		}
	} else {
		switch r.Intn(4) {
		case 0: // wrapped
			from = r.Intn(n)
			to = r.Intn(from + 1)
		case 1: // rotation
			from = r.Intn(n)
			to = from
		case 2: // extended
			from = r.Intn(2 * n)
			to = from + 1 + r.Intn(n) // may end in a third copy: positions are modulo n
		default:
			from = r.Intn(n)
			to = from + 1 + r.Intn(n-from)
		}
	}
	idx, ok := ref.WindowIndex(n, from, to, circ)
	if !ok {
		return
	}
	op := "Sub"
	if circ {
		op = "SubCirc"
	}
	h.note("%s #%d [%d,%d) of %d -> #%d", op, a.id, from, to, n, len(h.ents))
	o, err := a.obj.Subsequence(from, to, circ)
	if err != nil || o == nil {
		h.rep.violate("sub-error:"+op, "Subsequence refuses a window of the domain", h.detail(map[string]any{"error": fmt.Sprint(err)}))
		return
	}
	if k := h.byPtr[o]; k != nil {
		h.rep.violate("sub-returns-existing-object", "Subsequence returned an existing object", h.detail(nil))
		return
	}
	s := a.sh.window(idx)
	s.feat = []byte(o.Features()) // the feature table of a subsequence is not constrained
	h.add(o, s, op, a)
	h.track(op)
}

func (h *hist) opJoin(a, b *entity, inplace bool) {
	if a.sh.hasQual() {
		return // Join does not extend the qualities: only used on receivers without qualities
	}
	if len(a.sh.nuc)+len(b.sh.nuc) > 2500 {
		return // lengths stay bounded (repeated self-joins double the sequence)
	}
	op := "Join"
	if inplace {
		op = "Join-inplace"
	}
	h.note("%s #%d + #%d -> #%d?", op, a.id, b.id, len(h.ents))
	tail := cloneBytes(b.sh.nuc)
	o := a.obj.Join(b.obj, inplace)
	if inplace {
		if o != a.obj {
			h.rep.violate("join-inplace-identity", "Join(inplace) did not return its receiver", h.detail(nil))
			return
		}
		a.sh.nuc = append(a.sh.nuc, tail...)
		h.touch(a, op)
	} else {
		if h.byPtr[o] != nil {
			h.rep.violate("join-returns-existing-object", "Join(false) returned an existing object", h.detail(nil))
			return
		}
		s := a.sh.clone()
		s.nuc = append(s.nuc, tail...)
		h.add(o, s, op, a)
	}
	h.track(op)
}

func (h *hist) opSetSequence(a *entity) {
	r := h.c.Rng
	n := len(a.sh.nuc)
	m := n
	if !a.sh.hasQual() || r.Intn(2) == 0 {
		m = h.pickLen()
	}
	nuc := gen.DNAFull(r, m, r.Intn(4))
	if r.Intn(4) == 0 {
		nuc = gen.Upper(r, nuc, 500) // SetSequence is given upper case now and then (compared case-insensitively)
	}
	h.setSequenceWith(a, nuc)
	if a.sh.hasQual() && m != n {
		// keep the object well formed: qualities of the new length (or none)
		var q []byte
		if r.Intn(3) > 0 {
			q = gen.Quals(r, m)
		}
		a.obj.SetQualities(cloneBytes(q))
		a.sh.qual = q
		h.track("SetQualities")
	}
}

func (h *hist) setSequenceWith(a *entity, nuc []byte) {
	h.note("SetSequence #%d len %d -> %d", a.id, len(a.sh.nuc), len(nuc))
	a.obj.SetSequence(cloneBytes(nuc))
	a.sh.nuc = ref.LowerBytes(nuc)
	h.touch(a, "SetSequence")
	h.track("SetSequence")
}

func (h *hist) opSetQualities(a *entity) {
	r := h.c.Rng
	var q []byte
	if r.Intn(8) > 0 {
		q = gen.Quals(r, len(a.sh.nuc))
	}
	h.setQualitiesWith(a, q)
}

func (h *hist) setQualitiesWith(a *entity, q []byte) {
	h.note("SetQualities #%d len %d (had: %v)", a.id, len(q), a.sh.hasQual())
	a.obj.SetQualities(cloneBytes(q))
	a.sh.qual = q
	h.touch(a, "SetQualities")
	h.track("SetQualities")
}

func (h *hist) opSetFeatures(a *entity) {
	h.setFeaturesWith(a, gen.Feature(h.c.Rng))
}

func (h *hist) setFeaturesWith(a *entity, f []byte) {
	h.note("SetFeatures #%d len %d cap %d", a.id, len(f), cap(f))
	a.sh.feat = cloneBytes(f)
	a.obj.SetFeatures(f)
	h.touch(a, "SetFeatures")
	h.track("SetFeatures")
}

func (h *hist) opAttr(a *entity) {
	r := h.c.Rng
	switch r.Intn(4) {
	case 0:
		keys := sortedKeys(a.sh.ann)
		if len(keys) > 0 {
			k := keys[r.Intn(len(keys))]
			if k != "definition" {
				h.note("DeleteAttribute #%d %s", a.id, k)
				delete(a.sh.ann, k)
				a.obj.DeleteAttribute(k)
				h.touch(a, "DeleteAttribute")
				return
			}
		}
		fallthrough
	case 1:
		h.note("nested edit #%d", a.id)
		if editNested(h.c, a.obj, a.sh) {
			h.touch(a, "nested-edit")
			return
		}
		fallthrough
	default:
		k := gen.AnnotKeys[r.Intn(len(gen.AnnotKeys))]
		v := gen.AnnotValue(r, 2)
		h.note("SetAttribute #%d %s", a.id, k)
		a.sh.ann[k] = deepCopy(v)
		a.obj.SetAttribute(k, v)
		h.touch(a, "SetAttribute")
	}
}

func (h *hist) pickEmpty() *entity {
	var l []*entity
	for _, e := range h.live {
		if len(e.sh.nuc) == 0 {
			l = append(l, e)
		}
	}
	if len(l) == 0 {
		return nil
	}
	return l[h.c.Rng.Intn(len(l))]
}

// opNewEmpty creates an empty sequence whose buffer is (or is not) preallocated.
func (h *hist) opNewEmpty() {
	r := h.c.Rng
	pre := []int{0, 1 + r.Intn(64), 300, 301, 1024, 1500}[r.Intn(6)]
	h.newEmptyWith(pre)
	if e := h.ents[len(h.ents)-1]; r.Intn(3) == 0 {
		n := 1 + r.Intn(400)
		h.note("Grow #%d by %d", e.id, n)
		e.obj.Grow(n)
		h.track("Grow")
	}
}

func (h *hist) newEmptyWith(pre int) *entity {
	h.note("NewEmptyBioSequence(%d) -> #%d", pre, len(h.ents))
	o := obiseq.NewEmptyBioSequence(pre)
	e := h.add(o, &shadow{ann: map[string]any{}}, "NewEmpty", nil)
	h.track("NewEmpty")
	return e
}

// opClear empties the sequence, and the qualities with it (the object stays well formed);
// both keep their backing arrays.
func (h *hist) opClear(a *entity) {
	h.note("Clear #%d (len %d, qual %v)", a.id, len(a.sh.nuc), a.sh.hasQual())
	a.obj.Clear()
	a.sh.nuc = nil
	h.touch(a, "Clear")
	h.track("Clear")
	if a.sh.hasQual() || h.c.Rng.Intn(2) == 0 {
		a.obj.ClearQualities()
		h.track("ClearQualities")
	}
	a.sh.qual = nil
}

func (h *hist) opClearQualities(a *entity) {
	h.note("ClearQualities #%d (had: %v)", a.id, a.sh.hasQual())
	a.obj.ClearQualities()
	a.sh.qual = nil
	h.touch(a, "ClearQualities")
	h.track("ClearQualities")
}

// opAppend appends nucleotides (and as many qualities when the object has
// qualities, or is empty and gets some) with the append-style mutators.
func (h *hist) opAppend(a *entity) {
	r := h.c.Rng
	k := 1 + r.Intn(30)
	if len(a.sh.nuc)+k > 2500 {
		return
	}
	var q []byte
	if a.sh.hasQual() || (len(a.sh.nuc) == 0 && r.Intn(2) == 0) {
		q = gen.Quals(r, k)
	}
	h.appendWith(a, gen.DNAFull(r, k, r.Intn(4)), q, r.Intn(3), r.Intn(2))
}

func (h *hist) appendWith(a *entity, data, q []byte, how, qhow int) {
	h.note("Append #%d (len %d) + %d nucleotides, %d qualities (form %d/%d)", a.id, len(a.sh.nuc), len(data), len(q), how, qhow)
	switch how {
	case 0:
		a.obj.Write(cloneBytes(data))
	case 1:
		a.obj.WriteString(string(data))
	default:
		for _, b := range data {
			a.obj.WriteByte(b)
		}
	}
	a.sh.nuc = append(a.sh.nuc, ref.LowerBytes(data)...)
	h.touch(a, "Append")
	h.track("Write")
	if len(q) > 0 {
		if qhow == 0 {
			a.obj.WriteQualities(cloneBytes(q))
		} else {
			for _, b := range q {
				a.obj.WriteByteQualities(b)
			}
		}
		a.sh.qual = append(a.sh.qual, q...)
		h.track("WriteQualities")
	}
}

// opPair links two reads the way the paired readers do; the model mirrors the two pointer writes.
func (h *hist) opPair(a, b *entity) {
	h.note("PairTo #%d <-> #%d", a.id, b.id)
	a.obj.PairTo(b.obj)
	a.mate, b.mate = b, a
	a.inherited, b.inherited = false, false
	h.touch(a, "PairTo")
	h.touch(b, "PairTo")
}

// opUnPair: the object and the mate it is linked to forget each other; nothing else does.
func (h *hist) opUnPair(a *entity) {
	h.note("UnPair #%d (model mate: %v, real mate: %v)", a.id, a.mate != nil, a.obj.PairedWith() != nil)
	a.obj.UnPair()
	if a.mate != nil {
		a.mate.mate = nil
		h.touch(a.mate, "UnPair")
	}
	a.mate = nil
	a.inherited = false
	h.touch(a, "UnPair")
}

// opMateWrite modifies whatever the object reaches through PairedWith(). The model only follows
// when that is the object's own mate: a derived object reaching the mate of its source writes
// into state it shares with the source.
func (h *hist) opMateWrite(a *entity) {
	m := a.obj.PairedWith()
	if m == nil {
		return
	}
	me := h.byPtr[m]
	if me == nil || me.state != stLive {
		return
	}
	h.note("write through PairedWith() of #%d -> #%d", a.id, me.id)
	v := fmt.Sprintf("via-%d-step-%d", a.id, h.step)
	m.SetAttribute("mate_note", v)
	if a.mate == me {
		me.sh.ann["mate_note"] = v
		h.touch(me, "MateWrite")
	}
}

// opGrow reserves room; nothing observable changes.
func (h *hist) opGrow(a *entity) {
	n := 1 + h.c.Rng.Intn(400)
	h.note("Grow #%d by %d", a.id, n)
	a.obj.Grow(n)
	h.touch(a, "Grow")
	h.track("Grow")
}

func (h *hist) opRecycle(a *entity) {
	h.note("Recycle #%d (%s)", a.id, a.origin)
	sq, ql, ft := a.obj.VerifBuffers()
	for _, b := range [3][]byte{sq, ql, ft} {
		if p, _ := base(b); p != 0 {
			h.freed[p] = b
		}
	}
	a.obj.Recycle()
	h.unlive(a, stDead)
}

func (h *hist) opScribble() {
	r := h.c.Rng
	switch r.Intn(5) {
	case 0: // annotation pool
		a := new(obiseq.Annotation)
		*a = obiseq.GetAnnotation()
		h.note("GetAnnotation (had %d entries)", len(*a))
		if len(*a) > 0 {
			h.rep.violate("annotation-pool-dirty", "GetAnnotation returned a non-empty map", h.detail(map[string]any{"map": fmt.Sprint(*a)}))
		}
		(*a)["scribble"] = map[string]any{"x": h.step}
		h.ownedA = append(h.ownedA, a)
	case 1: // give an annotation map back
		if len(h.ownedA) > 0 {
			i := r.Intn(len(h.ownedA))
			a := h.ownedA[i]
			h.ownedA = append(h.ownedA[:i], h.ownedA[i+1:]...)
			h.note("RecycleAnnotation of a harness map")
			obiseq.RecycleAnnotation(a)
		}
	case 2: // give a slice back
		if len(h.owned) > 0 {
			i := r.Intn(len(h.owned))
			hb := h.owned[i]
			h.owned = append(h.owned[:i], h.owned[i+1:]...)
			if p, _ := base(*hb.p); p != 0 {
				h.freed[p] = *hb.p
			}
			h.note("RecycleSlice of a harness slice cap=%d", cap(*hb.p))
			obiseq.RecycleSlice(hb.p)
		}
	default: // take a slice and use its whole capacity, as alignment and reader code do
		n := h.pickLen()
		p := new([]byte)
		*p = obiseq.GetSlice(n)
		h.note("GetSlice(%d) -> len %d cap %d", n, len(*p), cap(*p))
		if pp, _ := base(*p); pp != 0 && h.freed[pp] != nil {
			delete(h.freed, pp)
			h.c.Count("recycled_buffers_reused", 1)
		}
		*p = (*p)[:cap(*p)]
		for i := range *p {
			(*p)[i] = '#'
		}
		h.owned = append(h.owned, harnessBuf{p, h.step})
		if len(h.owned) > 6 {
			h.owned = h.owned[1:]
		}
	}
}

var histOps = []string{"New", "Copy", "RC", "RC-inplace", "Sub", "SubCirc", "Join", "Join-inplace", "SetSequence", "SetQualities", "SetFeatures", "Attr", "Recycle", "Scribble", "Drop",
	"NewEmpty", "Clear", "ClearQualities", "Append", "Grow", "Pair", "UnPair", "MateWrite"}

// operations for which an empty (cleared / preallocated) object is preferred now and then:
// what they do to a zero-length slice that has a capacity is the point
var emptyOps = map[string]bool{"Copy": true, "RC": true, "Join": true, "Join-inplace": true, "Append": true, "SetSequence": true,
	"SetQualities": true, "Recycle": true, "Grow": true, "RC-inplace": true}

// chooseOp draws the next operation; the mix keeps the population inside [lo, hi].
func (h *hist) chooseOp(lo, hi int, weights []int) string {
	n := len(h.live)
	if n < lo {
		if n == 0 || h.c.Rng.Intn(2) == 0 {
			return "New"
		}
		return []string{"Copy", "RC", "Sub", "SubCirc"}[h.c.Rng.Intn(4)]
	}
	if n > hi {
		return []string{"Recycle", "Recycle", "Drop"}[h.c.Rng.Intn(3)]
	}
	t := 0
	for _, w := range weights {
		t += w
	}
	x := h.c.Rng.Intn(t)
	for i, w := range weights {
		if x < w {
			return histOps[i]
		}
		x -= w
	}
	return "New"
}

func (h *hist) doStep(op string) {
	h.opName = op
	a := h.pick()
	if emptyOps[op] && h.c.Rng.Intn(3) == 0 {
		if e := h.pickEmpty(); e != nil {
			a = e
		}
	}
	if a == nil && op != "New" && op != "Scribble" && op != "NewEmpty" {
		op = "New"
		h.opName = op
	}
	if a != nil {
		partner := "none"
		if a.parent >= 0 {
			partner = [...]string{"source-live", "source-recycled", "source-quarantined", "source-dropped"}[h.ents[a.parent].state]
		}
		h.c.Key("op/%s/on:%s/%s/children:%v/qual:%v/empty:%v", op, a.origin, partner, a.children > 0, a.sh.hasQual(), len(a.sh.nuc) == 0)
		h.c.Key("seq/%s>%s", a.lastOp, op)
	}
	defer func() {
		if r := recover(); r != nil {
			buf := make([]byte, 4096)
			buf = buf[:runtime.Stack(buf, false)]
			h.rep.violate("panic:"+op, "an operation of the history panicked", h.detail(map[string]any{"panic": fmt.Sprint(r), "stack": string(buf)}))
			h.stop = true
		}
	}()
	switch op {
	case "New":
		h.opNew()
	case "Copy":
		h.opCopy(a)
	case "RC":
		h.opRC(a, false)
	case "RC-inplace":
		h.opRC(a, true)
	case "Sub":
		h.opSub(a, false)
	case "SubCirc":
		h.opSub(a, true)
	case "Join", "Join-inplace":
		b := h.pick()
		h.opJoin(a, b, op == "Join-inplace")
	case "SetSequence":
		h.opSetSequence(a)
	case "SetQualities":
		h.opSetQualities(a)
	case "SetFeatures":
		h.opSetFeatures(a)
	case "Attr":
		h.opAttr(a)
	case "Recycle":
		h.opRecycle(a)
	case "Scribble":
		h.opScribble()
	case "Drop":
		h.note("Drop #%d", a.id)
		h.unlive(a, stDropped)
	case "NewEmpty":
		h.opNewEmpty()
	case "Clear":
		h.opClear(a)
	case "ClearQualities":
		h.opClearQualities(a)
	case "Append":
		h.opAppend(a)
	case "Grow":
		h.opGrow(a)
	case "Pair":
		if b := h.pick(); b != nil && b != a {
			h.opPair(a, b)
		}
	case "UnPair":
		h.opUnPair(a)
	case "MateWrite":
		h.opMateWrite(a)
	}
	if a != nil && a.state == stLive && op != "Drop" {
		a.lastOp = op
	}
	h.track(op)
	h.check()
}

func runHistory(c *core.Ctx) {
	h := &hist{c: c, rep: newReporter(c), byPtr: map[*obiseq.BioSequence]*entity{}, freed: map[uintptr][]byte{}}
	if c.Idx < len(scripts) {
		h.maxLen = 80
		runScript(c, h, c.Idx)
		c.Count("evaluations", h.step)
		c.Count("object_comparisons", h.evals)
		c.Count("history_steps", h.step)
		return
	}
	h.auditOn = true
	r := c.Rng
	lo := 4 + r.Intn(8)
	hi := lo + 4 + r.Intn(20)
	steps := c.Pick(200, 600) + r.Intn(c.Pick(400, 1400))
	h.maxLen = []int{20, 80, 300, 500}[r.Intn(4)]
	// operation mix of this history (some histories have no recycling, some no derivation …)
	weights := make([]int, len(histOps))
	for i := range weights {
		weights[i] = 1 + r.Intn(6)
		if r.Intn(6) == 0 {
			weights[i] = 0
		}
	}
	weights[0] = max(weights[0], 2)
	defer func() {
		first := h.first
		c.Sample(map[string]any{"population": []int{lo, hi}, "steps": steps, "max_length": h.maxLen, "operations": histOps, "weights": weights, "first_operations": first})
	}()
	quietPool(func() {
		last := ""
		for h.step = 1; h.step <= steps && !h.stop; h.step++ {
			op := h.chooseOp(lo, hi, weights)
			if op != last {
				c.Risk("history:" + op)
				last = op
			}
			h.doStep(op)
			if h.step%256 == 0 {
				// bounded memory: a collection at fixed steps (it also ages the pools, deterministically)
				runtime.GC()
			}
		}
	})
	c.Count("evaluations", h.step-1)
	c.Count("object_comparisons", h.evals)
	c.Count("history_steps", h.step-1)
	c.Count("objects_created", len(h.ents))
	c.Count("divergent_objects", h.nDiverg)
	c.Key("hist/pop%d-%d/len%d/steps%d", lo/4, hi/8, h.maxLen, steps/200)
}
