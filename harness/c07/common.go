// Package c07: reverse complement, subsequence and copy obey their algebraic
// laws and share no mutable state with their source.
package c07

import (
	"bytes"
	"fmt"
	"reflect"
	"runtime"
	"runtime/debug"
	"sort"

	"git.metabarcoding.org/obitools/obitools4/obitools4/pkg/obiseq"
	"git.metabarcoding.org/obitools/obitools4/obitools4/pkg/obiverif"

	"verifh/core"
	"verifh/ref"
)

const pmKey = "pairing_mismatches"

// shadow is the harness-owned model of the observable state of one sequence.
type shadow struct {
	nuc  []byte         // lower case
	qual []byte         // nil or empty = no qualities
	feat []byte         // feature table text
	ann  map[string]any // annotations except pairing_mismatches (deep, owned by the harness)
	pm   []ref.Mismatch // the pairing_mismatches annotation (nil = absent)
}

func cloneBytes(b []byte) []byte {
	if b == nil {
		return nil
	}
	return append([]byte{}, b...)
}

// deepCopy copies the container kinds produced by gen.AnnotValue.
func deepCopy(v any) any {
	switch x := v.(type) {
	case map[string]any:
		m := make(map[string]any, len(x))
		for k, e := range x {
			m[k] = deepCopy(e)
		}
		return m
	case map[string]int:
		m := make(map[string]int, len(x))
		for k, e := range x {
			m[k] = e
		}
		return m
	case map[string]string:
		m := make(map[string]string, len(x))
		for k, e := range x {
			m[k] = e
		}
		return m
	case []any:
		l := make([]any, len(x))
		for i, e := range x {
			l[i] = deepCopy(e)
		}
		return l
	case []int:
		return append([]int{}, x...)
	case []string:
		return append([]string{}, x...)
	}
	return v
}

func deepCopyMap(m map[string]any) map[string]any {
	if m == nil {
		return map[string]any{}
	}
	return deepCopy(m).(map[string]any)
}

func (s *shadow) clone() *shadow {
	return &shadow{nuc: cloneBytes(s.nuc), qual: cloneBytes(s.qual), feat: cloneBytes(s.feat), ann: deepCopyMap(s.ann), pm: append([]ref.Mismatch(nil), s.pm...)}
}

func (s *shadow) hasQual() bool { return len(s.qual) > 0 }

// rc is the reference reverse complement of the model.
func (s *shadow) rc() *shadow {
	r := s.clone()
	r.nuc = ref.RevComp(s.nuc)
	if s.hasQual() {
		r.qual = ref.Reverse(s.qual)
	}
	if s.pm != nil {
		r.pm = ref.MismatchesRC(s.pm, len(s.nuc))
	}
	return r
}

// window is the reference subsequence of the model; feature tables are not
// constrained by the property for subsequences (the caller decides).
func (s *shadow) window(idx []int) *shadow {
	r := s.clone()
	r.nuc = ref.Window(s.nuc, idx)
	if s.hasQual() {
		r.qual = ref.Window(s.qual, idx)
	}
	if s.pm != nil {
		r.pm = ref.MismatchesWindow(s.pm, idx)
	}
	return r
}

// looseEqual is a deep comparison that identifies nil and empty containers.
func looseEqual(a, b any) bool {
	switch x := a.(type) {
	case map[string]any:
		y, ok := b.(map[string]any)
		if !ok || len(x) != len(y) {
			return false
		}
		for k, e := range x {
			f, ok := y[k]
			if !ok || !looseEqual(e, f) {
				return false
			}
		}
		return true
	case map[string]int:
		y, ok := b.(map[string]int)
		if !ok || len(x) != len(y) {
			return false
		}
		for k, e := range x {
			if f, ok := y[k]; !ok || f != e {
				return false
			}
		}
		return true
	case map[string]string:
		y, ok := b.(map[string]string)
		if !ok || len(x) != len(y) {
			return false
		}
		for k, e := range x {
			if f, ok := y[k]; !ok || f != e {
				return false
			}
		}
		return true
	case []any:
		y, ok := b.([]any)
		if !ok || len(x) != len(y) {
			return false
		}
		for i := range x {
			if !looseEqual(x[i], y[i]) {
				return false
			}
		}
		return true
	case []int:
		y, ok := b.([]int)
		if !ok || len(x) != len(y) {
			return false
		}
		for i := range x {
			if x[i] != y[i] {
				return false
			}
		}
		return true
	case []string:
		y, ok := b.([]string)
		if !ok || len(x) != len(y) {
			return false
		}
		for i := range x {
			if x[i] != y[i] {
				return false
			}
		}
		return true
	}
	if a == nil || b == nil {
		return a == nil && b == nil
	}
	if reflect.TypeOf(a) != reflect.TypeOf(b) || !reflect.TypeOf(a).Comparable() {
		return false
	}
	return a == b
}

// observed state -----------------------------------------------------------

// equalFold compares nucleotides case-insensitively without allocating
// (got is what Sequence() shows, want is a lower-case model).
func equalFold(got, want []byte) bool {
	if len(got) != len(want) {
		return false
	}
	for i, c := range got {
		if ref.Lower(c) != want[i] {
			return false
		}
	}
	return true
}

// obsNuc returns the nucleotides of a sequence through its public accessor.
func obsNuc(o *obiseq.BioSequence) []byte { return []byte(o.String()) }

// obsQual returns the qualities when the sequence says it has some.
func obsQual(o *obiseq.BioSequence) []byte {
	if o.HasQualities() {
		return []byte(o.Qualities())
	}
	return nil
}

// obsAnn returns the live annotation map (read-only use) or nil.
func obsAnn(o *obiseq.BioSequence) map[string]any {
	if o.HasAnnotation() {
		return map[string]any(o.Annotations())
	}
	return nil
}

// snapshot builds a model from what a sequence shows (used for values the
// property leaves free, and for the literal detail of a violation).
func snapshot(o *obiseq.BioSequence) *shadow {
	s := &shadow{nuc: ref.LowerBytes(obsNuc(o)), qual: cloneBytes(obsQual(o)), feat: []byte(o.Features()), ann: map[string]any{}}
	for k, v := range obsAnn(o) {
		if k == pmKey {
			continue
		}
		s.ann[k] = deepCopy(v)
	}
	return s
}

// a field of the observable state
const (
	fNuc  = "nucleotides"
	fQual = "qualities"
	fFeat = "features"
	fAnn  = "annotations"
	fPM   = "pairing_mismatches"
	fMate = "mate"
)

// diff compares a live sequence with its model; it returns the fields that differ
// (fPM entries are returned as "pairing_mismatches:<class>").
func diff(o *obiseq.BioSequence, s *shadow, withFeat bool) []string {
	var d []string
	if !equalFold(o.Sequence(), s.nuc) {
		d = append(d, fNuc)
	}
	q := obsQual(o)
	if s.hasQual() {
		if !bytes.Equal(q, s.qual) {
			d = append(d, fQual)
		}
	} else if len(q) > 0 {
		d = append(d, fQual)
	}
	if withFeat && o.Features() != string(s.feat) {
		d = append(d, fFeat)
	}
	ann := obsAnn(o)
	n := 0
	same := true
	for k, v := range ann {
		if k == pmKey {
			continue
		}
		n++
		w, ok := s.ann[k]
		if !ok || !looseEqual(v, w) {
			same = false
		}
	}
	if n != len(s.ann) {
		same = false
	}
	if !same {
		d = append(d, fAnn)
	}
	// position-bearing annotation
	var got map[string]int
	gotOK := true
	if v, ok := ann[pmKey]; ok {
		if m, isMap := asIntMap(v); isMap {
			got, gotOK = ref.CanonMismatches(m)
		} else {
			gotOK = false
		}
	}
	want := ref.CanonOf(s.pm)
	if !gotOK {
		d = append(d, fPM+":unparsable")
	} else {
		for _, c := range ref.DiffMismatches(got, want) {
			d = append(d, fPM+":"+c)
		}
	}
	return d
}

// describe renders a sequence for a violation detail.
func describe(o *obiseq.BioSequence) map[string]any {
	if o == nil {
		return nil
	}
	m := map[string]any{"nucleotides": o.String(), "features": o.Features()}
	if o.HasQualities() {
		m["qualities"] = fmt.Sprint([]byte(o.Qualities()))
	}
	if a := obsAnn(o); a != nil {
		m["annotations"] = fmt.Sprint(a)
	}
	return m
}

func (s *shadow) describe() map[string]any {
	m := map[string]any{"nucleotides": string(s.nuc), "features": string(s.feat)}
	if s.hasQual() {
		m["qualities"] = fmt.Sprint(s.qual)
	}
	if len(s.ann) > 0 {
		m["annotations"] = fmt.Sprint(s.ann)
	}
	if s.pm != nil {
		m[pmKey] = fmt.Sprint(ref.MismatchMap(s.pm))
	}
	return m
}

// build creates a real sequence from a model: every slice and container given
// to the real code is a fresh copy that the harness never touches again.
func build(id string, s *shadow, definition string) *obiseq.BioSequence {
	var o *obiseq.BioSequence
	if s.hasQual() {
		o = obiseq.NewBioSequenceWithQualities(id, cloneBytes(s.nuc), definition, cloneBytes(s.qual))
	} else {
		o = obiseq.NewBioSequence(id, cloneBytes(s.nuc), definition)
	}
	if len(s.feat) > 0 {
		o.SetFeatures(cloneBytes(s.feat))
	}
	keys := make([]string, 0, len(s.ann))
	for k := range s.ann {
		keys = append(keys, k)
	}
	sort.Strings(keys)
	for _, k := range keys {
		if k == "definition" {
			continue
		}
		o.SetAttribute(k, deepCopy(s.ann[k]))
	}
	if s.pm != nil && len(s.pm) > 0 {
		m := ref.MismatchMap(s.pm)
		if (len(s.nuc)+len(s.pm))%3 == 1 {
			// the form the annotation has when the record was read from a file (decoded JSON):
			// map[string]interface{} holding float64 values
			dm := map[string]interface{}{}
			for k, v := range m {
				dm[k] = float64(v)
			}
			o.SetAttribute(pmKey, dm)
		} else {
			o.SetAttribute(pmKey, m)
		}
	}
	return o
}

// reporter de-duplicates the causes reported by one case.
type reporter struct {
	c    *core.Ctx
	seen map[string]int
}

func newReporter(c *core.Ctx) *reporter { return &reporter{c: c, seen: map[string]int{}} }

// procSeen counts, per child process, the cases in which a cause was already
// recorded. The supervisor keeps at most 2000 violation records per run: a cause
// that shows up in thousands of cases (a listed known finding does) must not
// crowd out the records of another cause, so a child records the witness of a
// cause for the first case in which it meets it and only counts the others
// (counter violating_observations). Verdict and signatures are unaffected.
var procSeen = map[string]int{}

func (r *reporter) violate(cause, what string, detail any) {
	r.seen[cause]++
	if r.seen[cause] == 1 {
		key := r.c.Sub + ":" + cause
		procSeen[key]++
		if procSeen[key] == 1 {
			r.c.Violate(cause, what, detail)
		} else {
			r.c.Count("violating_cases_not_recorded", 1)
		}
	}
	r.c.Count("violating_observations", 1)
}

// quietPool runs f with one P, a freshly emptied set of sync.Pools and no
// garbage collection, so that the hand-out order of the slice pool is a
// function of the operations only (replayable), and with poisoned recycling.
func quietPool(f func()) {
	prev := runtime.GOMAXPROCS(1)
	runtime.GC()
	runtime.GC()
	gc := debug.SetGCPercent(-1)
	obiverif.SetPoison(true)
	defer func() {
		debug.SetGCPercent(gc)
		runtime.GOMAXPROCS(prev)
	}()
	f()
}

func lenClass(n int) string {
	switch {
	case n == 1:
		return "1"
	case n <= 12:
		return fmt.Sprintf("%d", n)
	case n <= 300:
		return fmt.Sprintf("<=300/%d", n%2)
	case n <= 1024:
		return fmt.Sprintf("<=1024/%d", n%2)
	}
	return fmt.Sprintf(">1024/%d", n%2)
}

// asIntMap reads a position map in either of its two forms: map[string]int (set by the library) or
// the decoded-JSON form map[string]interface{} with numeric values.
func asIntMap(v any) (map[string]int, bool) {
	switch m := v.(type) {
	case map[string]int:
		return m, true
	case map[string]interface{}:
		out := map[string]int{}
		for k, x := range m {
			switch n := x.(type) {
			case float64:
				out[k] = int(n)
			case int:
				out[k] = n
			default:
				return nil, false
			}
		}
		return out, true
	}
	return nil, false
}
