package c07

import (
	"bytes"
	"fmt"
	"strings"

	"git.metabarcoding.org/obitools/obitools4/obitools4/pkg/obiseq"

	"verifh/core"
	"verifh/gen"
	"verifh/ref"
)

// lawCause maps a differing field of the result of an operation to a cause class.
func lawCause(op, field string) string {
	if strings.HasPrefix(field, fPM+":") {
		return "annotation-coords:" + op + ":" + strings.TrimPrefix(field, fPM+":")
	}
	switch op {
	case "copy":
		return "copy-value:" + field
	case "rc":
		return "rc-value:" + field
	case "subseq":
		return "sub-value:" + field
	case "subseq-circular":
		return "circular:" + field
	}
	return op + "-value:" + field
}

type lawRun struct {
	c     *core.Ctx
	rep   *reporter
	evals int
}

// expect compares o with the model and reports every differing field under the law of op.
func (l *lawRun) expect(op string, o *obiseq.BioSequence, want *shadow, withFeat bool, what string, ctx map[string]any) bool {
	l.evals++
	d := diff(o, want, withFeat)
	for _, f := range d {
		det := map[string]any{"observed": describe(o), "expected": want.describe(), "field": f}
		for k, v := range ctx {
			det[k] = v
		}
		l.rep.violate(lawCause(op, f), what, det)
	}
	return len(d) == 0
}

// unchanged checks that a sequence that was not the target of an operation still shows its model.
func (l *lawRun) unchanged(cause string, o *obiseq.BioSequence, want *shadow, what string, ctx map[string]any) bool {
	l.evals++
	d := diff(o, want, true)
	if len(d) > 0 {
		det := map[string]any{"observed": describe(o), "expected": want.describe(), "fields": d}
		for k, v := range ctx {
			det[k] = v
		}
		l.rep.violate(cause, what, det)
		return false
	}
	return true
}

// guard runs f and turns a panic of the target code into a violation.
func (l *lawRun) guard(stage string, ctx map[string]any, f func()) {
	defer func() {
		if r := recover(); r != nil {
			det := map[string]any{"panic": fmt.Sprint(r)}
			for k, v := range ctx {
				det[k] = v
			}
			l.rep.violate("panic:"+stage, "the operation panicked on an input of the property's domain", det)
		}
	}()
	f()
}

// mirrored returns the window of the reverse complement that mirrors (from, to)
// (only for windows given in their natural form: from < n, to <= n).
func mirrored(n, from, to int) (int, int) {
	mf, mt := n-to, n-from
	if mf == n { // to == 0: the mirrored window starts at the origin
		mf = 0
	}
	return mf, mt
}

// wholeLaws checks the laws that do not depend on a window: copy, single and
// double reverse complement (in place and not), coordinate transform under rc.
func (l *lawRun) wholeLaws(x *shadow) {
	ctx := map[string]any{"x": x.describe()}
	l.guard("whole", ctx, func() {
		X := build("x", x, "")
		// Copy is equal
		C := X.Copy()
		l.expect("copy", C, x, true, "Copy() differs from its source", ctx)
		// in-place reverse complement of the copy: value, then involution
		r := C.ReverseComplement(true)
		if r != C {
			l.rep.violate("rc-inplace-identity", "ReverseComplement(true) of a sequence without cached link did not return its receiver", ctx)
			return
		}
		l.expect("rc", C, x.rc(), true, "ReverseComplement(true) differs from the reference reverse complement", ctx)
		l.unchanged("sharing:copy:rc-inplace:source", X, x, "reverse complementing a copy in place changed the source", ctx)
		C.ReverseComplement(true)
		l.evals++
		for _, f := range diff(C, x, true) {
			cause := "rc-involution:" + f
			if strings.HasPrefix(f, fPM) {
				cause = "annotation-coords:rc-involution:" + strings.TrimPrefix(f, fPM+":")
			}
			l.rep.violate(cause, "reverse complementing twice (in place) does not restore the sequence",
				map[string]any{"x": x.describe(), "observed": describe(C), "field": f})
		}
		// not in place: a new object, source unchanged
		Y := X.ReverseComplement(false)
		if Y == X {
			l.rep.violate("rc-returns-receiver", "ReverseComplement(false) returned its receiver", ctx)
			return
		}
		l.expect("rc", Y, x.rc(), true, "ReverseComplement(false) differs from the reference reverse complement", ctx)
		l.unchanged("sharing:rc:none:source", X, x, "ReverseComplement(false) changed its source", ctx)
		// second complement computed on a rebuilt object (no cached link involved)
		y := snapshot(Y)
		if v, ok := asIntMap(obsAnn(Y)[pmKey]); ok {
			for k, p := range v {
				if m, ok := ref.ParseMismatchKey(k); ok {
					m.Pos = p
					y.pm = append(y.pm, m)
				}
			}
		}
		Y2 := build("y", y, "")
		Z := Y2.ReverseComplement(false)
		l.evals++
		for _, f := range diff(Z, x, true) {
			cause := "rc-involution:" + f
			if strings.HasPrefix(f, fPM) {
				cause = "annotation-coords:rc-involution:" + strings.TrimPrefix(f, fPM+":")
			}
			l.rep.violate(cause, "reverse complementing twice does not restore the sequence",
				map[string]any{"x": x.describe(), "observed": describe(Z), "field": f})
		}
	})
}

// windowLaws checks one window of x: value of the (circular) subsequence,
// rc/sub commutation, agreement with the window of Join(x, x), source unchanged.
// XR is a real reverse complement of X computed once per x (never modified).
func (l *lawRun) windowLaws(x *shadow, X, XR *obiseq.BioSequence, XX *obiseq.BioSequence, from, to int, circular bool, inplace bool) {
	n := len(x.nuc)
	idx, ok := ref.WindowIndex(n, from, to, circular)
	if !ok {
		return
	}
	op := "subseq"
	topo := "linear"
	if circular {
		op = "subseq-circular"
		topo = "circular"
	}
	ctx := map[string]any{"x": x.describe(), "from": from, "to": to, "circular": circular}
	l.guard(op, ctx, func() {
		S, err := X.Subsequence(from, to, circular)
		l.evals++
		if err != nil || S == nil {
			ctx["error"] = fmt.Sprint(err)
			l.rep.violate("sub-error:"+topo, "Subsequence refuses a window of the domain", ctx)
			return
		}
		want := x.window(idx)
		l.expect(op, S, want, false, "Subsequence differs from the window of the sequence (circular: of the sequence concatenated with itself)", ctx)

		// the matching window of Join(x, x), computed by the real code (sequences without qualities only)
		if XX != nil && circular {
			j0, j1 := from, from+len(idx)
			if SJ, err := XX.Subsequence(j0, j1, false); err == nil {
				l.evals++
				if !bytes.Equal(ref.LowerBytes(obsNuc(SJ)), ref.LowerBytes(obsNuc(S))) {
					l.rep.violate("circular:vs-join", "a circular subsequence differs from the window of Join(x, x)",
						map[string]any{"x": string(x.nuc), "from": from, "to": to, "circular_sub": S.String(), "join_window": SJ.String()})
				}
			}
		}

		// rc(sub(x, i, j)) = sub(rc(x), n-j, n-i)   (natural windows only)
		if from < n && to <= n {
			mf, mt := mirrored(n, from, to)
			M, err := XR.Subsequence(mf, mt, circular)
			l.evals++
			if err != nil || M == nil {
				ctx["mirrored"] = []int{mf, mt}
				ctx["error"] = fmt.Sprint(err)
				l.rep.violate("sub-error:"+topo, "Subsequence refuses the mirrored window on the reverse complement", ctx)
			} else {
				R := S.ReverseComplement(inplace)
				for _, f := range []string{fNuc, fQual} {
					var a, b []byte
					if f == fNuc {
						a, b = ref.LowerBytes(obsNuc(R)), ref.LowerBytes(obsNuc(M))
					} else {
						a, b = obsQual(R), obsQual(M)
					}
					if !bytes.Equal(a, b) {
						l.rep.violate("rc-sub:"+f+":"+topo, "the reverse complement of a subsequence differs from the mirrored subsequence of the reverse complement",
							map[string]any{"x": x.describe(), "from": from, "to": to, "mirrored": []int{mf, mt}, "circular": circular,
								"rc_of_sub": describe(R), "sub_of_rc": describe(M)})
					}
				}
				// both sides against the reference
				wr := want.rc()
				wr.pm = nil
				wr.ann = nil
				for _, side := range []*obiseq.BioSequence{R, M} {
					if !bytes.Equal(ref.LowerBytes(obsNuc(side)), wr.nuc) {
						l.rep.violate("rc-sub:"+fNuc+":"+topo, "rc(sub) / sub(rc) differs from the reference", map[string]any{"x": x.describe(), "from": from, "to": to, "circular": circular, "observed": describe(side), "expected": string(wr.nuc)})
					}
					q := obsQual(side)
					if (wr.hasQual() && !bytes.Equal(q, wr.qual)) || (!wr.hasQual() && len(q) > 0) {
						l.rep.violate("rc-sub:"+fQual+":"+topo, "rc(sub) / sub(rc) qualities differ from the reference", map[string]any{"x": x.describe(), "from": from, "to": to, "circular": circular, "observed": describe(side), "expected": fmt.Sprint(wr.qual)})
					}
				}
			}
		}
	})
}

// allWindows enumerates the windows of the domain for length n.
func allWindows(n int, f func(from, to int, circular bool)) {
	for from := 0; from < n; from++ {
		for to := from + 1; to <= n; to++ {
			f(from, to, false)
		}
	}
	for from := 0; from < 2*n; from++ {
		for to := 0; to <= 3*n; to++ {
			if _, ok := ref.WindowIndex(n, from, to, true); ok {
				f(from, to, true)
			}
		}
	}
}

// checkSequence runs the whole-sequence laws and the window laws on the given windows.
func (l *lawRun) checkSequence(x *shadow, windows func(n int, f func(from, to int, circular bool))) {
	n := len(x.nuc)
	l.wholeLaws(x)
	var X, XR, XX *obiseq.BioSequence
	ctx := map[string]any{"x": x.describe()}
	l.guard("setup", ctx, func() {
		X = build("x", x, "")
		XR = X.ReverseComplement(false)
		if !x.hasQual() {
			XX = X.Join(X, false)
			l.evals++
			if !bytes.Equal(ref.LowerBytes(obsNuc(XX)), append(cloneBytes(x.nuc), x.nuc...)) {
				l.rep.violate("join-value:"+fNuc, "Join(x, x, false) is not x followed by x", map[string]any{"x": string(x.nuc), "observed": XX.String()})
				XX = nil
			}
		}
	})
	if X == nil || XR == nil {
		return
	}
	k := 0
	windows(n, func(from, to int, circular bool) {
		k++
		l.windowLaws(x, X, XR, XX, from, to, circular, k%2 == 0)
		l.c.Key("win/%s/%d/%d/%v/%v/%v", lenClassW(n, from, to), from*13/(n+1), to*13/(2*n+1), circular, x.hasQual(), x.pm != nil)
	})
	// the objects every window was taken from are unchanged
	l.unchanged("sharing:sub:none:source", X, x, "taking subsequences changed the source", ctx)
	xr := x.rc()
	l.unchanged("sharing:sub:none:source", XR, xr, "taking subsequences changed the (reverse complemented) source", ctx)
}

// lenClassW keeps exact (n, from, to) for n <= 12 and classes above.
func lenClassW(n, from, to int) string {
	if n <= 12 {
		return fmt.Sprintf("%d:%d:%d", n, from, to)
	}
	edge := ""
	if from == 0 {
		edge += "L"
	}
	if to == n {
		edge += "R"
	}
	if to == 0 {
		edge += "Z"
	}
	if from == to {
		edge += "="
	}
	if to == from+1 {
		edge += "1"
	}
	return lenClass(n) + edge
}

const (
	exhMaxLen = 12
)

// exhaustive case: length n, one block of the sequence set, every window.
func (l *lawRun) exhaustive(n, block, blocks int) {
	c := l.c
	var seqs [][]byte
	for k := 0; k < len(ref.DNAAlphabet); k++ {
		if k%blocks == block {
			seqs = append(seqs, gen.RotatedAlphabet(n, k))
		}
	}
	for i := 0; i < 2; i++ {
		seqs = append(seqs, gen.DNAFull(c.Rng, n, 2))
	}
	seqs = append(seqs, gen.DNAFull(c.Rng, n, 0))
	for i, s := range seqs {
		// variant A: nucleotides only; variant B: qualities, features, nested annotations, a mismatch at every position
		a := &shadow{nuc: s, ann: map[string]any{}}
		if i%3 == 0 {
			a.ann = gen.Annotations(c.Rng, 2)
		}
		b := &shadow{nuc: s, qual: gen.Quals(c.Rng, n), feat: gen.Feature(c.Rng), ann: gen.Annotations(c.Rng, 4), pm: gen.MismatchesAll(c.Rng, n)}
		l.checkSequence(a, allWindows)
		l.checkSequence(b, allWindows)
		if i == 0 && block == 0 {
			c.Sample(map[string]any{"x": b.describe(), "windows": "every (from,to): linear 0<=from<to<=n; circular windows of x+x with from<2n, length<=n, and wrapped (from>=to, to>=0)"})
		}
	}
}

// random case: long sequences, windows at the edges and inside.
func (l *lawRun) random() {
	c := l.c
	per := c.Pick(6, 12)
	for k := 0; k < per; k++ {
		var n int
		switch c.Rng.Intn(8) {
		case 0:
			n = 13 + c.Rng.Intn(20)
		case 1:
			n = []int{299, 300, 301, 1023, 1024, 1025}[c.Rng.Intn(6)]
		case 2:
			n = 1025 + c.Rng.Intn(c.Pick(300, 1200))
		default:
			n = 13 + c.Rng.Intn(488)
		}
		x := &shadow{nuc: gen.DNAFull(c.Rng, n, c.Rng.Intn(4)), ann: gen.Annotations(c.Rng, 4)}
		if c.Rng.Intn(3) > 0 {
			x.qual = gen.Quals(c.Rng, n)
		}
		if c.Rng.Intn(2) == 0 {
			x.feat = gen.Feature(c.Rng)
		}
		if c.Rng.Intn(2) == 0 {
			x.pm = gen.Mismatches(c.Rng, n, []int{1 + c.Rng.Intn(8), 1 + c.Rng.Intn(8), 1 + c.Rng.Intn(8), 9 + c.Rng.Intn(24)}[c.Rng.Intn(4)]) // more than 8 entries: more than one bucket of a Go map
		}
		nw := c.Pick(24, 40)
		l.checkSequence(x, func(n int, f func(from, to int, circular bool)) {
			// edges
			f(0, n, false)
			f(0, 1, false)
			f(n-1, n, false)
			f(0, n, true)
			f(0, 0, true)
			f(n-1, 0, true)
			f(n-1, n-1, true)
			f(n-1, 1, true)
			f(n, 2*n, true)
			f(2*n-1, 2*n, true)
			for i := 0; i < nw; i++ {
				a, b := c.Rng.Intn(n), c.Rng.Intn(n+1)
				switch c.Rng.Intn(4) {
				case 0: // linear
					if a > b {
						a, b = b, a
					}
					if a == b {
						b = a + 1
					}
					f(a, b, false)
				case 1: // circular, natural form (wrapped when a >= b)
					f(a, b, true)
				case 2: // circular, around a mismatch position (entry exactly at an edge)
					if len(x.pm) > 0 {
						p := x.pm[c.Rng.Intn(len(x.pm))].Pos
						lo, hi := max(0, p-1-c.Rng.Intn(3)), min(n, p+c.Rng.Intn(3))
						if lo < hi {
							f(lo, hi, c.Rng.Intn(2) == 0)
						}
						if hi < n && lo > 0 {
							f(hi, lo, true)
						}
					} else {
						f(a, b, true)
					}
				default: // circular, extended form
					a = c.Rng.Intn(2 * n)
					ln := 1 + c.Rng.Intn(n)
					if a+ln <= 2*n {
						f(a, a+ln, true)
					}
				}
			}
		})
		if k == 0 {
			c.Sample(map[string]any{"x_length": n, "has_qualities": x.hasQual(), "mismatches": len(x.pm)})
		}
	}
}

// ---------------------------------------------------------------------------
// independence of derived objects

// derivations: "-cleared" = the source was emptied with Clear()/ClearQualities() first (zero-length
// slices that keep their capacity), "-prealloc" = the source is NewEmptyBioSequence(n>0)
var derivations = []string{"copy", "rc", "sub", "subcirc", "join", "copy-cleared", "rc-cleared", "join-cleared", "copy-prealloc", "join-prealloc"}
var mutators = []string{"rc-inplace", "SetSequence", "SetQualities", "SetFeatures", "SetAttribute", "nested-edit", "DeleteAttribute", "Join-inplace", "Recycle", "Append", "Clear"}

// mutate applies one mutator to the real object and to its model; it returns
// false when the object is dead afterwards.
func mutate(c *core.Ctx, mut string, O *obiseq.BioSequence, s *shadow) (alive bool) {
	n := len(s.nuc)
	switch mut {
	case "rc-inplace":
		r := O.ReverseComplement(true)
		if r != O {
			// with a cached link the in-place form returns the cached object; whether the
			// receiver is then complemented or left alone is not constrained here
			if len(diff(O, s, true)) != 0 {
				*s = *s.rc()
			}
			return true
		}
		*s = *s.rc()
	case "SetSequence":
		nuc := gen.DNAFull(c.Rng, n, 2) // same length: qualities stay consistent
		O.SetSequence(cloneBytes(nuc))
		s.nuc = nuc
	case "SetQualities":
		q := gen.Quals(c.Rng, n)
		O.SetQualities(cloneBytes(q))
		s.qual = q
	case "SetFeatures":
		f := gen.Feature(c.Rng)
		s.feat = cloneBytes(f)
		O.SetFeatures(f)
	case "SetAttribute":
		k := gen.AnnotKeys[c.Rng.Intn(len(gen.AnnotKeys))]
		v := gen.AnnotValue(c.Rng, 2)
		s.ann[k] = deepCopy(v)
		O.SetAttribute(k, v)
	case "nested-edit":
		// modify, through the object's own annotation map, a container it holds
		if !editNested(c, O, s) {
			v := map[string]any{"a": map[string]any{"b": 1}}
			s.ann["deep"] = deepCopy(v)
			O.SetAttribute("deep", v)
			editNested(c, O, s)
		}
	case "DeleteAttribute":
		for _, k := range sortedKeys(s.ann) {
			delete(s.ann, k)
			O.DeleteAttribute(k)
			break
		}
	case "Join-inplace":
		if s.hasQual() { // Join does not extend qualities: only used on sequences without qualities
			O.SetQualities(nil)
			s.qual = nil
		}
		t := gen.DNAFull(c.Rng, 1+c.Rng.Intn(20), 0)
		T := obiseq.NewBioSequence("t", cloneBytes(t), "")
		O.Join(T, true)
		s.nuc = append(s.nuc, t...)
	case "Append":
		// the append-style mutators; qualities follow when the object has some (or is empty and gets some)
		k := 1 + c.Rng.Intn(20)
		if len(s.nuc)+k > 2600 {
			return true
		}
		data := gen.DNAFull(c.Rng, k, 0)
		withQ := s.hasQual() || (len(s.nuc) == 0 && c.Rng.Intn(2) == 0)
		switch c.Rng.Intn(3) {
		case 0:
			O.Write(cloneBytes(data))
		case 1:
			O.WriteString(string(data))
		default:
			for _, b := range data {
				O.WriteByte(b)
			}
		}
		s.nuc = append(cloneBytes(s.nuc), data...)
		if withQ {
			q := gen.Quals(c.Rng, k)
			if c.Rng.Intn(2) == 0 {
				O.WriteQualities(cloneBytes(q))
			} else {
				for _, b := range q {
					O.WriteByteQualities(b)
				}
			}
			s.qual = append(cloneBytes(s.qual), q...)
		}
	case "Clear":
		O.Clear()
		O.ClearQualities()
		s.nuc, s.qual = nil, nil
	case "Recycle":
		O.Recycle()
		return false
	}
	return true
}

func sortedKeys(m map[string]any) []string {
	keys := make([]string, 0, len(m))
	for k := range m {
		keys = append(keys, k)
	}
	for i := 1; i < len(keys); i++ {
		for j := i; j > 0 && keys[j] < keys[j-1]; j-- {
			keys[j], keys[j-1] = keys[j-1], keys[j]
		}
	}
	return keys
}

// editNested changes, in place, one container held by the annotations of O
// (and the same way in the model). It returns false when there is none.
func editNested(c *core.Ctx, O *obiseq.BioSequence, s *shadow) bool {
	ann := obsAnn(O)
	for _, k := range sortedKeys(s.ann) {
		rv, ok := ann[k]
		if !ok {
			continue
		}
		if editValue(c.Rng.Intn(1000), rv, s.ann[k]) {
			return true
		}
	}
	return false
}

// editValue applies the same in-place change to a real container and to its model.
func editValue(salt int, real, model any) bool {
	switch r := real.(type) {
	case map[string]any:
		m, ok := model.(map[string]any)
		if !ok {
			return false
		}
		// go one level down when possible, so that deep containers are exercised
		for _, k := range sortedKeys(m) {
			if rv, ok := r[k]; ok && salt%2 == 0 && editValue(salt/2, rv, m[k]) {
				return true
			}
		}
		key := fmt.Sprintf("edit%d", salt%5)
		r[key] = salt
		m[key] = salt
		return true
	case map[string]int:
		m, ok := model.(map[string]int)
		if !ok {
			return false
		}
		key := fmt.Sprintf("edit%d", salt%5)
		r[key] = salt
		m[key] = salt
		return true
	case map[string]string:
		m, ok := model.(map[string]string)
		if !ok {
			return false
		}
		key := fmt.Sprintf("edit%d", salt%5)
		r[key] = fmt.Sprint(salt)
		m[key] = fmt.Sprint(salt)
		return true
	case []int:
		m, ok := model.([]int)
		if !ok || len(r) == 0 || len(m) != len(r) {
			return false
		}
		r[salt%len(r)] = -salt - 1
		m[salt%len(m)] = -salt - 1
		return true
	case []any:
		m, ok := model.([]any)
		if !ok || len(r) == 0 || len(m) != len(r) {
			return false
		}
		i := salt % len(r)
		if editValue(salt/2, r[i], m[i]) {
			return true
		}
		r[i] = salt
		m[i] = salt
		return true
	}
	return false
}

// poolDraws allocates from the slice and annotation pools the way pipeline code does.
func poolDraws(c *core.Ctx, n int) []*obiseq.BioSequence {
	var keep []*obiseq.BioSequence
	for i := 0; i < 3; i++ {
		m := max(1, n+c.Rng.Intn(7)-3)
		x := &shadow{nuc: bytes.Repeat([]byte{'n'}, m), qual: bytes.Repeat([]byte{1}, m), ann: map[string]any{"scribble": i}}
		keep = append(keep, build("fresh", x, ""))
	}
	b := obiseq.GetSlice(n)
	b = b[:cap(b)]
	for i := range b {
		b[i] = '#'
	}
	a := obiseq.GetAnnotation()
	a["scribble"] = map[string]any{"x": 1}
	return keep
}

// sharing runs one (derivation, mutator, direction) trial.
func (l *lawRun) sharing(deriv, mut string, mutateDerived bool, n int) {
	c := l.c
	x := &shadow{nuc: gen.DNAFull(c.Rng, n, 3), qual: gen.Quals(c.Rng, n), feat: gen.Feature(c.Rng), ann: gen.Annotations(c.Rng, 4)}
	x.ann["deep"] = map[string]any{"a": map[string]any{"b": []int{1, 2, 3}}, "l": []any{map[string]int{"z": 1}}}
	if c.Rng.Intn(2) == 0 {
		x.pm = gen.Mismatches(c.Rng, n, []int{3, 3, 12, 20}[c.Rng.Intn(4)])
	}
	if strings.HasPrefix(deriv, "join") {
		x.qual = nil
	}
	if strings.HasSuffix(deriv, "-prealloc") {
		x = &shadow{ann: map[string]any{}}
	}
	dir := "source"
	if mutateDerived {
		dir = "derived"
	}
	ctx := map[string]any{"x": x.describe(), "derivation": deriv, "mutator": mut, "mutated": dir}
	l.guard("sharing:"+deriv+":"+mut, ctx, func() {
		drainPool() // trials are independent of what earlier trials left in the slice pool
		var X *obiseq.BioSequence
		switch {
		case strings.HasSuffix(deriv, "-prealloc"):
			pre := []int{1 + c.Rng.Intn(64), 300, 1024, 1500}[c.Rng.Intn(4)]
			ctx["preallocate"] = pre
			X = obiseq.NewEmptyBioSequence(pre)
		case strings.HasSuffix(deriv, "-cleared"):
			X = build("x", x, "")
			X.Clear()
			X.ClearQualities()
			x.nuc, x.qual = nil, nil
		default:
			X = build("x", x, "")
		}
		var D *obiseq.BioSequence
		var d *shadow
		withFeat := true
		switch strings.TrimSuffix(strings.TrimSuffix(deriv, "-cleared"), "-prealloc") {
		case "copy":
			D, d = X.Copy(), x.clone()
		case "rc":
			D, d = X.ReverseComplement(false), x.rc()
		case "sub", "subcirc":
			from, to := c.Rng.Intn(n), 1+c.Rng.Intn(n)
			circ := deriv == "subcirc"
			if !circ && from >= to {
				from, to = to-1, from+1
			}
			idx, _ := ref.WindowIndex(n, from, to, circ)
			ctx["from"], ctx["to"] = from, to
			var err error
			D, err = X.Subsequence(from, to, circ)
			if err != nil {
				return
			}
			d = x.window(idx)
			withFeat = false
		case "join":
			t := gen.DNAFull(c.Rng, 1+c.Rng.Intn(10), 0)
			D = X.Join(obiseq.NewBioSequence("t", cloneBytes(t), ""), false)
			d = x.clone()
			d.nuc = append(d.nuc, t...)
		}
		// the derived object is taken as it is (its value is the business of the other laws)
		d = adopt(D, d, withFeat)
		target, ts, other, os, victim := X, x, D, d, "derived"
		if mutateDerived {
			target, ts, other, os, victim = D, d, X, x, "source"
		}
		alive := mutate(c, mut, target, ts)
		var fresh []*obiseq.BioSequence
		if !alive {
			fresh = poolDraws(c, len(ts.nuc))
		}
		l.unchanged("sharing:"+deriv+":"+mut+":"+victim, other, os,
			fmt.Sprintf("modifying or recycling the %s changed the %s", dir, victim), ctx)
		if alive {
			l.evals++
			if df := diff(target, ts, true); len(df) > 0 {
				ctx["fields"] = df
				ctx["observed"] = describe(target)
				ctx["expected"] = ts.describe()
				l.rep.violate("mutator-value:"+mut, "the mutated object does not show the new value", ctx)
			}
		}
		// second phase: append to the object that was not mutated. The mutated one must not
		// change; the appended one must show its new value, also after the pool was drawn from
		// when the mutated one was recycled.
		mutate(c, "Append", other, os)
		if !alive {
			fresh = append(fresh, poolDraws(c, len(os.nuc))...)
		}
		l.evals++
		if df := diff(other, os, true); len(df) > 0 {
			det := map[string]any{"fields": df, "observed": describe(other), "expected": os.describe()}
			for k, v := range ctx {
				det[k] = v
			}
			l.rep.violate("sharing:"+deriv+":"+mut+"+Append:"+victim, fmt.Sprintf("after the %s was mutated (%s), appending to the %s does not give the appended value", dir, mut, victim), det)
		}
		if alive {
			l.unchanged("sharing:"+deriv+":"+mut+"+Append:"+dir, target, ts,
				fmt.Sprintf("appending to the %s changed the %s", victim, dir), ctx)
		}
		for _, f := range fresh {
			if f.String() == "" {
				l.rep.violate("fresh-object-empty", "a freshly built sequence is empty", ctx)
			}
		}
		c.Key("share/%s/%s/%s/%s", deriv, mut, dir, lenClass(n))
	})
}

// drainPool empties the slice pool through its public API (poison is on: a
// slice made by the pool itself is the only one that is empty and all zero).
func drainPool() {
	for i := 0; i < 4096; i++ {
		s := obiseq.GetSlice(0)
		if len(s) == 0 && cap(s) > 0 && allBytes(s[:cap(s)], 0) {
			return
		}
	}
}

// adopt returns the model of a derived object: the expected one where the real
// object agrees with it, otherwise what the object shows (differences of value
// are reported by the value laws, not by the sharing trials).
func adopt(D *obiseq.BioSequence, d *shadow, withFeat bool) *shadow {
	if len(diff(D, d, withFeat)) == 0 {
		if !withFeat {
			d.feat = []byte(D.Features())
		}
		return d
	}
	s := snapshot(D)
	if v, ok := asIntMap(obsAnn(D)[pmKey]); ok {
		s.pm = []ref.Mismatch{}
		for k, p := range v {
			if m, ok := ref.ParseMismatchKey(k); ok {
				m.Pos = p
				s.pm = append(s.pm, m)
			}
		}
	}
	return s
}

var sharingLengths = []int{1, 2, 3, 7, 12, 50, 299, 300, 301, 500, 1024, 1025, 1300}

func runLaws(c *core.Ctx) {
	l := &lawRun{c: c, rep: newReporter(c)}
	blocks := lawBlocks
	nExh := exhMaxLen * blocks
	nRnd := c.Pick(lawRandomQuick, lawRandomThorough)
	quietPool(func() {
		switch {
		case c.Idx < nExh:
			l.exhaustive(c.Idx%exhMaxLen+1, c.Idx/exhMaxLen, blocks)
		case c.Idx < nExh+nRnd:
			l.random()
		default:
			k := c.Idx - nExh - nRnd
			// every (derivation, mutator, direction) combination, several lengths each
			for rep := 0; rep < c.Pick(3, 8); rep++ {
				combo := k % (len(derivations) * len(mutators) * 2)
				deriv := derivations[combo%len(derivations)]
				mut := mutators[(combo/len(derivations))%len(mutators)]
				mutateDerived := combo/(len(derivations)*len(mutators)) == 0
				n := sharingLengths[c.Rng.Intn(len(sharingLengths))]
				l.sharing(deriv, mut, mutateDerived, n)
				if rep == 0 {
					c.Sample(map[string]any{"derivation": deriv, "mutator": mut, "mutate_derived": mutateDerived, "length": n})
				}
			}
		}
	})
	c.Count("evaluations", l.evals)
}

const (
	lawBlocks         = 19 // one rotation of the alphabet per case
	lawRandomQuick    = 160
	lawRandomThorough = 2400
)

func lawsN(tier string) int {
	combos := len(derivations) * len(mutators) * 2
	if tier == "thorough" {
		return exhMaxLen*lawBlocks + lawRandomThorough + combos*12
	}
	return exhMaxLen*lawBlocks + lawRandomQuick + combos*2
}
