package c07

import "verifh/core"

func init() {
	core.Register(&core.Property{
		ID:    "C07",
		Level: "exploration",
		Rule: "laws: real ReverseComplement / Subsequence / Copy / Join executed next to a string-level reference. Exhaustive part: for every length 1..12, sequences in which every symbol of acgtryswkmbdhvn.-[] visits every position (rotations of the alphabet) plus random ones, with and without qualities / features / nested annotations / a pairing_mismatches entry at every position, x EVERY window: linear 0<=from<to<=n, circular windows of x+x (from<2n, length<=n) and wrapped ones (from>=to>=0); laws rc(rc(x))=x (in place and through a rebuilt object), rc(x)=reference, rc(sub(x,i,j))=sub(rc(x),n-j,n-i) (linear and circular), subcirc(x,i,j)=window of x+x (reference, and real Join(x,x) when x has no qualities), Copy equal, sources unchanged, mismatch positions transformed. Random part: lengths 13..2200 (pool limits 300/1024 included), edge windows. Sharing part: every (derivation in copy/rc/sub/subcirc/join, and copy/rc/join of a source emptied by Clear()+ClearQualities() or created by NewEmptyBioSequence(n>0): zero-length slices that keep a capacity) x (mutator in rc-inplace/SetSequence/SetQualities/SetFeatures/SetAttribute/nested-edit/DeleteAttribute/Join-inplace/Recycle/Append(Write|WriteString|WriteByte + WriteQualities|WriteByteQualities)/Clear) x (mutate derived / mutate source), then an Append to the other object; poison on, pool draws after Recycle. " +
			"tables: the complement of every IUPAC symbol (both cases) through obiseq (one-symbol sequences), obiapat (one-symbol patterns, C table) and obikmer (verif export of revcompnuc) against the IUPAC complement, and random IUPAC patterns <= 63. " +
			"history: populations of 4..35 live sequences, 200..2000 random operations (New, Copy, RC, RC-inplace, Sub, SubCirc, Join, Join-inplace, SetSequence, SetQualities, SetFeatures, attribute set/delete/nested edit, Recycle, pool scribbles GetSlice/RecycleSlice/GetAnnotation/RecycleAnnotation, Drop, NewEmptyBioSequence(0|n) (+Grow), Clear(+ClearQualities), ClearQualities, Append = Write|WriteString|WriteByte (+WriteQualities|WriteByteQualities), Grow; Copy/RC/Join/SetSequence/SetQualities/Recycle/Append are steered to empty objects one time out of three) with a random operation mix per history, poison on, one P and no background GC (pool hand-out order is a function of the operations); after EVERY step all live objects are compared with a harness-owned model and all live backing arrays / annotation containers are checked for overlap. " +
			"Added later: concurrent sub-check (2-16 goroutines with private models of the records they hold, sharing the pools), the position map in its decoded-JSON form. paired reads in the histories (PairTo, UnPair, writes through PairedWith(): a derived object must not reach the mate of its source). " +
			"distinct_nontrivial = distinct (length, from, to, circular, qualities, mismatches) windows for n<=12 and (length class, edge class) above + distinct (derivation, mutator, direction, length class) sharing trials + distinct (operation, origin of the object, state of its source, has children, qualities) and (previous operation on the object > operation) pairs observed in histories + symbols / pattern lengths of the tables",
		Assume: []string{
			"alphabet of the property: acgtryswkmbdhvn.-[] ('u' is only used for the comparison of the three tables); nucleotides are compared case-insensitively",
			"sequences are well formed at the end of every step (qualities, when present, as long as the sequence): Clear() is followed by ClearQualities() when there are qualities, the append-style mutators add as many qualities as nucleotides; Join, which does not extend qualities, is only applied to receivers without qualities; empty sequences (cleared, preallocated) take part in every operation except Subsequence (no window of the domain)",
			"circular windows: positions are taken modulo n: from<to means (x+x+x)[from:to] with from<2n and length<=n (a window that starts in the second copy may end in the third); from>=to (from<n) means x[from:]+x[:to]",
			"pairing_mismatches positions are 1-based (obialign.BuildQualityConsensus); the order of the two (symbol, score) items of a key and the case of the symbols are not constrained",
			"not constrained: ids, source, feature table of a subsequence, whether ReverseComplement(true) modifies its receiver when it answers with a cached object",
			"after Recycle() an object is never inspected again unless the real code itself returns it as the result of an operation on a live object",
		},
		Subs: []core.Sub{
			{Name: "tables", N: core.Const(9, 33), Run: runTables},
			{Name: "laws", N: lawsN, Run: runLaws},
			{Name: "history", N: core.Const(3000, 24000), Run: runHistory, TimeoutS: 1800, Shard: 100},
			{Name: "concurrent", N: core.Const(16, 128), Run: runConcurrent, Race: true, NRace: core.Const(4, 16), TimeoutS: 600},
		},
		RaceFiles:     []string{"pkg/obiseq/"},
		MinNontrivial: 1000,
		Post: func(tier string, counters map[string]int64) (inconclusive []string) {
			if counters["history_steps"] < 10000 {
				return // the history sub-check was not run as a whole (VERIF_ONLY, replay of one case)
			}
			if counters["pool_entries_recycled"] == 0 {
				inconclusive = append(inconclusive, "no poisoned slice was ever seen in the slice pool: the Poison hook of RecycleSlice is not active")
			}
			if counters["recycled_buffers_reused"] == 0 {
				inconclusive = append(inconclusive, "no recycled backing array was ever handed out again: the histories did not exercise the slice pool")
			}
			return
		},
	})
}
