package c07

// Scripted histories: a few short, fixed sequences of operations run under the
// same monitor as the random histories (without the pool audit, so that the
// consequences of a pooled live array are observed, not only its origin).

import (
	"bytes"

	"verifh/core"
)

// do runs one scripted step; the script is abandoned as soon as the monitor
// stopped following an object (the next steps would act on an unknown state).
func (h *hist) do(op string, f func()) {
	if h.stop {
		return
	}
	h.step++
	h.opName = op
	f()
	h.track(op)
	h.check()
	for _, e := range h.ents {
		if e.state == stQuarantined {
			h.stop = true
		}
	}
}

func plain(nuc string, withQual bool) *shadow {
	s := &shadow{nuc: []byte(nuc), ann: map[string]any{}}
	if withQual {
		s.qual = make([]byte, len(nuc))
		for i := range s.qual {
			s.qual[i] = byte(10 + i%40)
		}
	}
	return s
}

var scripts = []struct {
	name string
	run  func(h *hist)
}{
	{"recycle; SetQualities on a copy; New", func(h *hist) {
		var x, c, cc *entity
		h.do("New", func() { x = h.newWith(plain("acgtacgtacgtacgtacgt", true), "") })
		h.do("New", func() { c = h.newWith(plain("ttttccccggggaaaatttt", true), "") })
		h.do("Copy", func() { h.opCopy(c); cc = h.ents[len(h.ents)-1] })
		h.do("Recycle", func() { h.opRecycle(x) })
		h.do("SetQualities", func() { h.setQualitiesWith(cc, bytes.Repeat([]byte{33}, 20)) })
		h.do("New", func() { h.newWith(plain("gattacagat", false), "") })
	}},
	{"SetFeatures on a copy; New", func(h *hist) {
		var c, cc *entity
		h.do("New", func() { c = h.newWith(plain("ttttccccggggaaaatttt", false), "") })
		h.do("Copy", func() { h.opCopy(c); cc = h.ents[len(h.ents)-1] })
		h.do("SetFeatures", func() { h.setFeaturesWith(cc, append(make([]byte, 0, 64), "FT   source 1..20"...)) })
		h.do("New", func() { h.newWith(plain("gattacagat", false), "") })
	}},
	{"long SetQualities then short SetSequence on the same object", func(h *hist) {
		var c, cc *entity
		nuc := bytes.Repeat([]byte("acgt"), 300)
		h.do("New", func() { c = h.newWith(plain(string(nuc), false), "") })
		h.do("Copy", func() { h.opCopy(c); cc = h.ents[len(h.ents)-1] })
		h.do("SetQualities", func() { h.setQualitiesWith(cc, bytes.Repeat([]byte{20}, len(nuc))) })
		h.do("SetSequence", func() { h.setSequenceWith(cc, []byte("gat")) })
		if cc.state == stLive {
			h.do("SetQualities", func() { h.setQualitiesWith(cc, []byte{1, 2, 3}) })
		}
	}},
	{"rc; edit the source; rc of the rc", func(h *hist) {
		var x, y *entity
		h.do("New", func() { x = h.newWith(plain("aacgt", true), "") })
		h.do("RC", func() { h.opRC(x, false); y = h.ents[len(h.ents)-1] })
		h.do("SetSequence", func() { h.setSequenceWith(x, []byte("ggggg")) })
		h.do("RC", func() { h.opRC(y, false) })
	}},
	{"rc; edit the rc; rc of the rc", func(h *hist) {
		var x, y *entity
		h.do("New", func() { x = h.newWith(plain("aacgt", false), "") })
		h.do("RC", func() { h.opRC(x, false); y = h.ents[len(h.ents)-1] })
		h.do("SetSequence", func() { h.setSequenceWith(y, []byte("ggggg")) })
		h.do("RC", func() { h.opRC(y, false) })
	}},
	{"rc; recycle the source; rc of the rc", func(h *hist) {
		var x, y *entity
		h.do("New", func() { x = h.newWith(plain("aacgt", true), "") })
		h.do("RC", func() { h.opRC(x, false); y = h.ents[len(h.ents)-1] })
		h.do("Recycle", func() { h.opRecycle(x) })
		h.do("RC", func() { h.opRC(y, false) })
	}},
	{"rc; copy of the rc; edit the copy; rc of the copy", func(h *hist) {
		var x, y, c *entity
		h.do("New", func() { x = h.newWith(plain("aacgt", false), "") })
		h.do("RC", func() { h.opRC(x, false); y = h.ents[len(h.ents)-1] })
		h.do("Copy", func() { h.opCopy(y); c = h.ents[len(h.ents)-1] })
		h.do("SetSequence", func() { h.setSequenceWith(c, []byte("ttttt")) })
		h.do("RC", func() { h.opRC(c, false) })
	}},
	// --- zero-length slices that keep a capacity (Clear, ClearQualities, NewEmptyBioSequence(n>0)) ---
	{"clear; copy; append to the source, then to the copy", func(h *hist) {
		var x, c *entity
		h.do("New", func() { x = h.newWith(plain("acgtacgtacgtacgt", false), "") })
		h.do("Clear", func() { h.opClear(x) })
		h.do("Copy", func() { h.opCopy(x); c = h.ents[len(h.ents)-1] })
		h.do("Append", func() { h.appendWith(x, []byte("aaaa"), nil, 0, 0) })
		h.do("Append", func() { h.appendWith(c, []byte("gg"), nil, 1, 0) })
	}},
	{"clear with qualities; copy; append nucleotides and qualities to both", func(h *hist) {
		var x, c *entity
		h.do("New", func() { x = h.newWith(plain("acgtacgtacgtacgt", true), "") })
		h.do("Clear", func() { h.opClear(x) })
		h.do("Copy", func() { h.opCopy(x); c = h.ents[len(h.ents)-1] })
		h.do("Append", func() { h.appendWith(c, []byte("ttt"), []byte{30, 31, 32}, 2, 1) })
		h.do("Append", func() { h.appendWith(x, []byte("cc"), []byte{7, 8}, 0, 0) })
	}},
	{"ClearQualities; copy; give qualities back to both", func(h *hist) {
		var x, c *entity
		h.do("New", func() { x = h.newWith(plain("acgtacgt", true), "") })
		h.do("ClearQualities", func() { h.opClearQualities(x) })
		h.do("Copy", func() { h.opCopy(x); c = h.ents[len(h.ents)-1] })
		h.do("WriteQualities", func() {
			h.note("WriteQualities #%d", x.id)
			x.obj.WriteQualities([]byte{1, 2, 3, 4, 5, 6, 7, 8})
			x.sh.qual = []byte{1, 2, 3, 4, 5, 6, 7, 8}
			h.touch(x, "Append")
		})
		h.do("WriteQualities", func() {
			h.note("WriteByteQualities #%d", c.id)
			for i := 0; i < 8; i++ {
				c.obj.WriteByteQualities(byte(40 + i))
			}
			c.sh.qual = []byte{40, 41, 42, 43, 44, 45, 46, 47}
			h.touch(c, "Append")
		})
	}},
	{"preallocated empty sequence; copy; write to both", func(h *hist) {
		var x, c *entity
		h.do("NewEmpty", func() { x = h.newEmptyWith(64) })
		h.do("Copy", func() { h.opCopy(x); c = h.ents[len(h.ents)-1] })
		h.do("Append", func() { h.appendWith(x, []byte("acgtacgt"), nil, 2, 0) })
		h.do("Append", func() { h.appendWith(c, []byte("ttttt"), nil, 0, 0) })
	}},
	{"empty accumulator; two Join(false)", func(h *hist) {
		var acc, x, y *entity
		h.do("NewEmpty", func() { acc = h.newEmptyWith(100) })
		h.do("New", func() { x = h.newWith(plain("aaaaacccc", false), "") })
		h.do("New", func() { y = h.newWith(plain("ggggtt", false), "") })
		h.do("Join", func() { h.opJoin(acc, x, false) })
		h.do("Join", func() { h.opJoin(acc, y, false) })
		h.do("Join-inplace", func() { h.opJoin(acc, y, true) })
	}},
	{"clear; reverse complement (not in place); append to both", func(h *hist) {
		var x, c *entity
		h.do("New", func() { x = h.newWith(plain("acgtacgtac", true), "") })
		h.do("Clear", func() { h.opClear(x) })
		h.do("RC", func() { h.opRC(x, false); c = h.ents[len(h.ents)-1] })
		h.do("Append", func() { h.appendWith(x, []byte("acc"), []byte{1, 2, 3}, 0, 0) })
		h.do("Append", func() { h.appendWith(c, []byte("tg"), []byte{9, 9}, 0, 1) })
		h.do("RC-inplace", func() { h.opRC(c, true) })
	}},
	{"clear; copy; recycle the source; use the copy while the pool is drawn from", func(h *hist) {
		var x, c *entity
		h.do("New", func() { x = h.newWith(plain("acgtacgtacgtacgtacgtacgt", true), "") })
		h.do("Clear", func() { h.opClear(x) })
		h.do("Copy", func() { h.opCopy(x); c = h.ents[len(h.ents)-1] })
		h.do("Recycle", func() { h.opRecycle(x) })
		h.do("Append", func() { h.appendWith(c, []byte("gattaca"), []byte{1, 2, 3, 4, 5, 6, 7}, 0, 0) })
		h.do("New", func() { h.newWith(plain("ccccccccccc", true), "") })
		h.do("New", func() { h.newWith(plain("ttttttttttt", true), "") })
	}},
	{"clear; copy; SetSequence / SetQualities on the cleared source; append to the copy", func(h *hist) {
		var x, c *entity
		h.do("New", func() { x = h.newWith(plain("acgtacgtacgt", true), "") })
		h.do("Clear", func() { h.opClear(x) })
		h.do("Copy", func() { h.opCopy(x); c = h.ents[len(h.ents)-1] })
		h.do("SetSequence", func() { h.setSequenceWith(x, []byte("ggg")); h.setQualitiesWith(x, []byte{5, 6, 7}) })
		h.do("Append", func() { h.appendWith(c, []byte("aaaaa"), []byte{1, 1, 1, 1, 1}, 1, 0) })
		h.do("New", func() { h.newWith(plain("ccccc", true), "") })
	}},
}

func runScript(c *core.Ctx, h *hist, i int) {
	sc := scripts[i]
	c.Sample(map[string]any{"scripted_history": sc.name})
	quietPool(func() {
		defer func() {
			if r := recover(); r != nil {
				h.rep.violate("panic:"+h.opName, "an operation of a scripted history panicked", h.detail(map[string]any{"panic": r}))
			}
		}()
		sc.run(h)
	})
	c.Key("script/%d", i)
}
