package c07

// Scripted histories: a few short, fixed sequences of operations run under the
// same monitor as the random histories (without the pool audit, so that the
// consequences of a pooled live array are observed, not only its origin).

import (
	"bytes"

	"verifh/core"
)

// do runs one scripted step; the script is abandoned as soon as the monitor
// stopped following an object (the next steps would act on an unknown state).
func (h *hist) do(op string, f func()) {
	if h.stop {
		return
	}
	h.step++
	h.opName = op
	f()
	h.track(op)
	h.check()
	for _, e := range h.ents {
		if e.state == stQuarantined {
			h.stop = true
		}
	}
}

func plain(nuc string, withQual bool) *shadow {
	s := &shadow{nuc: []byte(nuc), ann: map[string]any{}}
	if withQual {
		s.qual = make([]byte, len(nuc))
		for i := range s.qual {
			s.qual[i] = byte(10 + i%40)
		}
	}
	return s
}

var scripts = []struct {
	name string
	run  func(h *hist)
}{
	{"recycle; SetQualities on a copy; New", func(h *hist) {
		var x, c, cc *entity
		h.do("New", func() { x = h.newWith(plain("acgtacgtacgtacgtacgt", true), "") })
		h.do("New", func() { c = h.newWith(plain("ttttccccggggaaaatttt", true), "") })
		h.do("Copy", func() { h.opCopy(c); cc = h.ents[len(h.ents)-1] })
		h.do("Recycle", func() { h.opRecycle(x) })
		h.do("SetQualities", func() { h.setQualitiesWith(cc, bytes.Repeat([]byte{33}, 20)) })
		h.do("New", func() { h.newWith(plain("gattacagat", false), "") })
	}},
	{"SetFeatures on a copy; New", func(h *hist) {
		var c, cc *entity
		h.do("New", func() { c = h.newWith(plain("ttttccccggggaaaatttt", false), "") })
		h.do("Copy", func() { h.opCopy(c); cc = h.ents[len(h.ents)-1] })
		h.do("SetFeatures", func() { h.setFeaturesWith(cc, append(make([]byte, 0, 64), "FT   source 1..20"...)) })
		h.do("New", func() { h.newWith(plain("gattacagat", false), "") })
	}},
	{"long SetQualities then short SetSequence on the same object", func(h *hist) {
		var c, cc *entity
		nuc := bytes.Repeat([]byte("acgt"), 300)
		h.do("New", func() { c = h.newWith(plain(string(nuc), false), "") })
		h.do("Copy", func() { h.opCopy(c); cc = h.ents[len(h.ents)-1] })
		h.do("SetQualities", func() { h.setQualitiesWith(cc, bytes.Repeat([]byte{20}, len(nuc))) })
		h.do("SetSequence", func() { h.setSequenceWith(cc, []byte("gat")) })
		if cc.state == stLive {
			h.do("SetQualities", func() { h.setQualitiesWith(cc, []byte{1, 2, 3}) })
		}
	}},
	{"rc; edit the source; rc of the rc", func(h *hist) {
		var x, y *entity
		h.do("New", func() { x = h.newWith(plain("aacgt", true), "") })
		h.do("RC", func() { h.opRC(x, false); y = h.ents[len(h.ents)-1] })
		h.do("SetSequence", func() { h.setSequenceWith(x, []byte("ggggg")) })
		h.do("RC", func() { h.opRC(y, false) })
	}},
	{"rc; edit the rc; rc of the rc", func(h *hist) {
		var x, y *entity
		h.do("New", func() { x = h.newWith(plain("aacgt", false), "") })
		h.do("RC", func() { h.opRC(x, false); y = h.ents[len(h.ents)-1] })
		h.do("SetSequence", func() { h.setSequenceWith(y, []byte("ggggg")) })
		h.do("RC", func() { h.opRC(y, false) })
	}},
	{"rc; recycle the source; rc of the rc", func(h *hist) {
		var x, y *entity
		h.do("New", func() { x = h.newWith(plain("aacgt", true), "") })
		h.do("RC", func() { h.opRC(x, false); y = h.ents[len(h.ents)-1] })
		h.do("Recycle", func() { h.opRecycle(x) })
		h.do("RC", func() { h.opRC(y, false) })
	}},
	{"rc; copy of the rc; edit the copy; rc of the copy", func(h *hist) {
		var x, y, c *entity
		h.do("New", func() { x = h.newWith(plain("aacgt", false), "") })
		h.do("RC", func() { h.opRC(x, false); y = h.ents[len(h.ents)-1] })
		h.do("Copy", func() { h.opCopy(y); c = h.ents[len(h.ents)-1] })
		h.do("SetSequence", func() { h.setSequenceWith(c, []byte("ttttt")) })
		h.do("RC", func() { h.opRC(c, false) })
	}},
}

func runScript(c *core.Ctx, h *hist, i int) {
	sc := scripts[i]
	c.Sample(map[string]any{"scripted_history": sc.name})
	quietPool(func() {
		defer func() {
			if r := recover(); r != nil {
				h.rep.violate("panic:"+h.opName, "an operation of a scripted history panicked", h.detail(map[string]any{"panic": r}))
			}
		}()
		sc.run(h)
	})
	c.Key("script/%d", i)
}
